#!/bin/bash
# Runs every seeded mutant against the check of its own property and prints one line each.
cd "$(dirname "$0")/.." || exit 2
for d in seeded/*/; do
  name=$(basename $d)
  timeout 1500 tools/seedtest.sh $name 2>&1 | tail -1
done
