#!/bin/bash
# usage: seedtest.sh <seed name e.g. C07-1> [check id (default: property of the seed)] [tier]
# Applies the seeded patch to /repo, runs the check, reverts. Prints DETECTED / MISSED.
name="$1"; pid="${2:-${name%%-*}}"; tier="${3:-quick}"
patch="/verif/seeded/$name/patch.diff"
cd /repo || exit 2
if [ -n "$(git status --porcelain --untracked-files=no)" ]; then echo "repo dirty, refusing"; exit 2; fi
if ! git apply "$patch" 2>/dev/null; then echo "$name: PATCH DOES NOT APPLY"; exit 3; fi
cd /verif
out=$(VERIF_TIER=$tier ./check "$pid" 2>&1); rc=$?
git -C /repo checkout -- . 
nviol=$(echo "$out" | grep -c '^VIOLATION')
if [ $rc -eq 1 ]; then echo "$name vs $pid: DETECTED ($nviol signatures) :: $(echo "$out" | grep -m3 'signature:' | tr '\n' ' ')";
else echo "$name vs $pid: MISSED rc=$rc :: $(echo "$out" | tail -1)"; fi
