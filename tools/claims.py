claim('C10', 'exploration',
      'Exhaustive enumeration of coordinate_to_bins (both copies) for all b<=40 (70 thorough), s<=b, x in 0..3b+5 against integer interval arithmetic, plus Hypothesis-generated large coordinates and synthetic tagged BAMs through create_count_table compared with an independent recount. Complete on the small arithmetic domain, sampled beyond it.',
      'Trusted: pysam/htslib, pandas. Coordinates non-negative, 1<=s<=b. Absence of violations outside the explored cases is not established.',
      'exhaustive enumeration + property-based testing (Hypothesis) against an interval-arithmetic reference model and an independent recount',
      'DESIGN.md section 4, C10')
claim('C17', 'exploration',
      'Exhaustive enumeration of blacklisted_binning over small regions (all blacklists of <=2 intervals, all bin sizes, 8 fragment sizes) plus Hypothesis-generated larger blacklists, genome-scale numbers, BED-file driven blacklisted_binning_contigs, fill_range and bp_chunked, each against interval arithmetic (exact partition, size bound, window containment and the documented window extent).',
      'Trusted: Python integers. Blacklist intervals half-open with start<end. Complete only on the stated small domain.',
      'exhaustive enumeration + property-based testing (Hypothesis) against an interval-arithmetic reference model',
      'DESIGN.md section 4, C17')
claim('C03', 'exploration',
      'Hypothesis-generated whitelist files (all supported formats, gzip, lazy loading, several aliases, N-containing and near-duplicate barcodes) with ALL 5^L observed strings queried per whitelist, and the shipped whitelists with all members / 1-mismatch neighbours of drawn subsets / drawn 2-mismatch and random strings, each lookup compared with a brute-force nearest-neighbour search.',
      'Trusted: file system, gzip. Barcodes of a file unique and of one length; index columns not pure ACGTNX. Exhaustive only per generated whitelist (short barcodes).',
      'property-based testing (Hypothesis) with per-whitelist exhaustive query enumeration against a brute-force nearest-neighbour reference',
      'DESIGN.md section 4, C03')
claim('C16', 'exploration',
      'Hypothesis-generated operation histories (add / nested add / duplicate / sort / point, range and read queries; rounds add*-sort-query* as well as free interleavings) executed against FeatureContainer and a linear-scan model; the whole history shrinks as one value.',
      'Trusted: numpy searchsorted, pysam get_blocks/get_aligned_pairs. Coordinates non-negative, strands +/-; the undocumented 4th lookup variant (optim not in bdbnb/nb/optim) is not claimed.',
      'model-based / stateful property-based testing (Hypothesis operation sequences) against a linear-scan reference model',
      'DESIGN.md section 4, C16')
claim('C07', 'exploration',
      'Hypothesis-generated sorted fragment lists (NlaIII / scCHIC / plain fragments, several cells, duplicates arriving after unrelated molecules, short and wide spans); for every input ALL ejection schedules (None, 0..n) x both pooling methods are executed on MoleculeIterator and compared with the never-eject partition and with the generator\'s truth classes; exactly-once emission is checked.',
      'Trusted: pysam AlignedSegment. UMIs compared exactly; clean equality classes (or, for bridging plain fragments, each pooling method against its own never-eject partition); optional fragment cap; one or two contigs; spans < cache_size/4, or wider spans restricted by the documented cache_size/2 ejection margin (in_domain). Exhaustive over schedules per input, sampled over inputs.',
      'property-based testing (Hypothesis) with exhaustive schedule enumeration per input; differential oracle (never-eject) + ground-truth partition',
      'DESIGN.md section 4, C07')
claim('C13', 'exploration',
      'Hypothesis-generated molecules (1..12 fragments, random overlaps, mismatches, N calls, quality ties between mates, single-end / inward / overlapping / dove-tailed mates, CIGARs with S/I/D) whose Molecule.get_consensus (plain and dove_safe) is compared with an independent brute-force vote, plus metamorphic checks over insertion orders and duplication of every fragment.',
      'Trusted: pysam get_aligned_pairs / MD parsing. Reads carry correct MD tags and read1/read2 flags; fragments of a molecule share cell, UMI and R1 orientation.',
      'property-based testing (Hypothesis) against a brute-force reference vote + metamorphic relations (permutation, duplication)',
      'DESIGN.md section 4, C13')
claim('C14', 'exploration',
      'Hypothesis-generated groups of TAPS molecules (plain / NlaIII / scCHIC classes, both strands, both TAPS strand conventions, inward / overlapping / dove-tailed / single-end fragments, N bases and contig-end contexts, two contigs sharing one TAPS instance) whose methylation_call_dict, XM strings and count tags after __finalise__ are compared with an independent caller written from the documented context table.',
      'Trusted: pysam FastaFile.fetch, get_aligned_pairs, MD parsing. Correct MD tags; NlaIII motif checking disabled (C09 covers it).',
      'property-based testing (Hypothesis) against an independent reference methylation caller',
      'DESIGN.md section 4, C14')
claim('C09', 'exploration',
      'Hypothesis-generated cuts on random references, each materialised as a forward fragment and as its mirror image on the reverse-complemented reference (NlaIIIFragment / CHICFragment; soft clips 0..6, motif mismatches, cycle shifts, single/paired/unmapped mate, check_motif, allow_cycle_shift, invert_strand, no_umi_cigar_processing, trimmed/untrimmed scCHIC); DS / RS / validity / qc-fail are compared with the simulator\'s cut coordinate and through the mirror map, and two PCR copies of one cut must be equal in both orientations.',
      'Trusted: pysam AlignedSegment geometry. Under no_umi_cigar_processing only the mirror relation is asserted; trimmed scCHIC layout = one base removed.',
      'property-based testing (Hypothesis) with a ground-truth simulator oracle + metamorphic mirror relation',
      'DESIGN.md section 4, C09')
claim('C05', 'exploration',
      'Hypothesis-generated simulated libraries (1..12 contigs around the 100 kb threshold in random header order, empty and invalid-only contigs, PCR copies on several lanes, unmapped / half-mapped / orphan / cross-contig reads, demultiplexer-style names or pre-tagged reads) run through run_multiome_tagging_cmd for nla / chic / qflag, single process and --multiprocess (deterministic pool with drawn completion order, or the real pool), --no_rejects and -skip_contig; input and output compared as record multisets, plus sort order, index and read-group declarations.',
      'Trusted: pysam/htslib, pysamiterators (its un-pairing of non co-located mates is accepted: mate number compared for co-located pairs only). No secondary/supplementary records generated.',
      'property-based testing (Hypothesis) with a library simulator and a multiset-accounting oracle; completion order owned by a deterministic pool',
      'DESIGN.md section 4, C05')
claim('C06', 'exploration',
      'Hypothesis-generated libraries with simulator truth (cells, packed sites on both strands, UMI neighbourhoods incl. N, PCR copies, clips) through MoleculeIterator (hamming 0/1/2, radius 0 and >0, cap, several ejection intervals): soundness of every molecule and, for hamming 0 / radius 0, equality with the truth partition; and through the command line tagger: exactly one non-duplicate fragment per molecule, RC permutation, af/TF, plus histories (re-tagging, input with preset duplicate bits and RC tags).',
      'Trusted: pysam/htslib, pysamiterators. For hamming>0 only soundness; history relations only when the admissible grouping is unique (no UMI / site chain) and without a cap (overflow depends on input order); rejection-reason strings of rejected fragments are not compared; plain Fragment classes: soundness only.',
      'property-based testing (Hypothesis) with a ground-truth library simulator; metamorphic history relations (retag, preset flags)',
      'DESIGN.md section 4, C06')
claim('C08', 'exploration',
      'Hypothesis-generated simulated libraries tagged serially and in parallel: contig-per-process mode (--multiprocess, 1..8 workers, deterministic pool with drawn completion order or the real pool) and the region-tiling mode of tag_multiome_multi_processing reached through the real command line function with drawn segment size / fetch margin / job size and sites on and next to bin boundaries; outputs compared as multisets of records with flags and molecule-level tags.',
      'Trusted: pysam/htslib merge/sort, multiprocessing. Fetch margin larger than the longest fragment; per-run ids ignored; sites inside [0, contig length).',
      'property-based testing (Hypothesis), differential oracle serial vs parallel; completion order owned by a deterministic pool',
      'DESIGN.md section 4, C08')
claim('C20', 'fault_enumeration',
      'For Hypothesis-generated small libraries (nla/chic, single process and --multiprocess) ALL step boundaries of the pipeline are enumerated as failure points (molecule k of n at iteration / write_tags / write_pysam, read-group header rewrite, sort, every index call, each worker job, merge, temp-folder cleanup) x {exception, KeyboardInterrupt, os._exit in a forked child}; after every run the status file is compared with the existence, readability, sort order, index and completeness (C05 oracle) of the output.',
      'Kills modelled at step boundaries (not inside htslib); a dying pool worker (Pool waits forever) is outside the check; worker failures are exceptions delivered through the deterministic pool. Trusted: pysam/htslib.',
      'fault injection enumerated over all step boundaries of property-based generated libraries (Hypothesis), with an invariant oracle on status file vs output',
      'DESIGN.md section 4, C20')
claim('C11', 'exploration',
      'Hypothesis-generated synthetic tagged BAMs (arbitrary flag words, MAPQ, SM/DS/RC/RR/NH/XA/mp/NM/DA tags, CIGARs with I/D/S, unmapped reads and unmapped mates) x option namespaces drawn from the whole filter / weighting / feature / binning / BED / blacklist / contig space, each table of create_count_table(return_df=True) compared cell by cell with an independent recount written from the option help texts.',
      'Trusted: pysam fetch, pandas. Every read has its sample tags; at most one of XA/NH per read; blacklist regions hold reads entirely or not at all; byValue only with joined features plus at least one other feature; --splitFeatures not generated; tolerance 1e-9.',
      'property-based testing (Hypothesis) against an independent reference implementation (recount)',
      'DESIGN.md section 4, C11')
claim('C12', 'exploration',
      'Hypothesis-generated tagged paired-end BAMs with sites on / next to job boundaries and up to max_fragment_size away from their read; obtain_counts(generate_commands(...)) is executed for every bins_per_job in {1,2,3,5,7,all} with a deterministic pool (drawn completion order) or the real pool, with and without key tags and with default arguments, and compared with a brute-force recount and across partitions; get_binned_counts is compared with a recount under its documented default filter.',
      'Trusted: pysam fetch, multiprocessing. Site within max_fragment_size of the read; paired-end reads with exactly one of read1/read2; no unmapped records.',
      'property-based testing (Hypothesis): reference recount + metamorphic relation over all job partitions; completion order owned by a deterministic pool',
      'DESIGN.md section 4, C12')
claim('C19', 'fault_enumeration',
      'Hypothesis-generated write histories over up to 200 target files (gzip / plain, maxHandles 1..40, pruneEvery 1..50, explicit close calls) with a generated fault plan for open() (descriptor limit k>=1, transient failures of the n-th open, permanent failure of one path) injected through counting wrappers around the real open / gzip.open inside the handlelimiter module; driven on HandleLimiter directly and through FastqHandle(single_cell=True); every file is read back and compared with the model of returned writes, live handles must be zero after close, and a raise is accepted only if the last failed attempt happened with nothing else open.',
      'Faults at open() only; gzip module and file system trusted. Parts for the multi-pass bamSplitByTag loop and for a real RLIMIT_NOFILE lowered in a child process are included.',
      'model-based property-based testing (Hypothesis operation sequences + generated fault plans) against a dictionary model',
      'DESIGN.md section 4, C19')
claim('C18', 'exploration',
      'Hypothesis-generated histories over generated VCFs (several contigs incl. a cache-skipped one, 1..4 samples, phased/unphased, missing and multi-base alleles, multi-allelic and monomorphic records, sample selection, ignored conversions): sessions create resolvers in all four lazyLoad/use_cache combinations over one persistent cache directory and tour the contigs with returns to evicted contigs and contigs absent from the VCF; every getAllelesAt / has_location answer is compared with an eager reference resolver and with the harness\'s own reading of the VCF text.',
      'Trusted: pysam VariantFile / tabix. Positions >= 0; one configuration per cache directory; multi-base sites only soundness + mode agreement.',
      'model-based property-based testing (Hypothesis operation sequences): differential between loading modes + reference reading of the VCF',
      'DESIGN.md section 4, C18')
claim('C15', 'exploration',
      'Hypothesis-generated NlaIII / scCHIC molecules on random references (gapped coverage below and above max_N_span, reverse strand, single fragments, indels, soft clips, conflicting bases at equal / unequal qualities) through deduplicate_majority(max_N_span) and write_pysam(consensus=True), and simulated libraries through bamtagmultiome --consensus --multiprocess with a reference FASTA; every consensus record is checked with a validity predicate (blocks = coverage, length agreement, reference reconstructed from sequence+CIGAR+MD by an independent MD parser, decidable base calls, gap limit, SM/RX/DS/TF tags).',
      'Base calls asserted only where every observation has phred >= 20 and the evidence is decidable without an error model. Trusted: pysam record construction, FastaFile.',
      'property-based testing (Hypothesis) with a validity-predicate oracle (many correct outputs) and an independent MD parser',
      'DESIGN.md section 4, C15')
claim('C02', 'exploration',
      'Hypothesis-generated accepted read pairs for all 28 registered strategies (whitelisted or 1-mismatch barcodes, N bases, inserts 0..150, qualities 0..51, motif-seeded inserts for the content dependent strategies): for 19 strategies the tags bc BC bi RX RQ rS lh lq ES eq IS MX and the emitted stretch of each mate are compared with a hand-written layout table taken from the description texts (also for a second pair of the same cell through the same strategy instance); for all strategies the emitted record must be one contiguous, quality-aligned stretch of the same mate and single-base perturbations must move exactly the outputs of that position and never the other mate.',
      'Only accepted pairs. 9 strategies whose descriptions do not fix the positions are covered by the relational part only. Harness barcode directory supplies synthetic whitelists for the aliases that cannot be loaded (10x, DamAndT, DamID2_scattered_10bp).',
      'property-based testing (Hypothesis) against a hand-written layout reference table + metamorphic single-base perturbation relation',
      'DESIGN.md section 4, C02')
claim('C04', 'exploration',
      'Exhaustive enumeration of the quality codec (all 94 phred characters and all pairs) plus Hypothesis-generated accepted pairs of all strategies with phred 33..126, library names of length 1..230 and five header variants: the header written by asFastq becomes a pysam read name, one QueryNameFlagger instance decodes the reads of a case (followed by a bulk-encoded read), and every encoded field, RQ against the original input qualities, SM, MI and the new read name are compared; over-long headers must be refused by the demultiplexer.',
      'Header-safe library names; names reach the tagger unchanged; the leading @ of a FASTQ header is syntax. Trusted: pysam query_name length check.',
      'exhaustive enumeration (codec) + property-based round-trip testing (Hypothesis) encode -> decode',
      'DESIGN.md section 4, C04')
claim('C01', 'exploration',
      'Hypothesis-generated FASTQ libraries (1..40 pairs with per-pair classes: whitelisted / 1- / 2-mismatch / random barcode, truncated and empty reads, N-rich, qualities 33..126, nine header variants, several pairs per cell) for every registered strategy, paired and single end incl. the wrong arity, with / without rejects handle, joint or per-cell output with small handle limits, maxReadPairs cut-offs, Hamming expansion 0/1, gzip / plain input, run through DemultiplexingStrategyLoader.demultiplex with real FastqHandles; all output files are parsed by an independent FASTQ reader and the serials of demultiplexed + rejected records must partition the consumed input, mates synchronised and ordered, rejects with reason and unchanged bases, counters and log equal to the files.',
      'Well-formed FASTQ input; library names <= 40 characters; acceptance itself is not predicted; the demux.py command line wrapper is not run. Harness barcode directory with synthetic whitelists for three aliases.',
      'property-based testing (Hypothesis) with a multiset-accounting oracle over independently parsed outputs',
      'DESIGN.md section 4, C01')
