claim('C10', 'exploration',
      'Exhaustive enumeration of coordinate_to_bins (both copies) for all b<=40 (70 thorough), s<=b, x in 0..3b+5 against integer interval arithmetic, plus Hypothesis-generated large coordinates and synthetic tagged BAMs through create_count_table compared with an independent recount. Complete on the small arithmetic domain, sampled beyond it.',
      'Trusted: pysam/htslib, pandas. Coordinates non-negative, 1<=s<=b. Absence of violations outside the explored cases is not established.',
      'exhaustive enumeration + property-based testing (Hypothesis) against an interval-arithmetic reference model and an independent recount',
      'DESIGN.md section 4, C10')
claim('C17', 'exploration',
      'Exhaustive enumeration of blacklisted_binning over small regions (all blacklists of <=2 intervals, all bin sizes, 8 fragment sizes) plus Hypothesis-generated larger blacklists, genome-scale numbers, BED-file driven blacklisted_binning_contigs, fill_range and bp_chunked, each against interval arithmetic (exact partition, size bound, window containment and the documented window extent).',
      'Trusted: Python integers. Blacklist intervals half-open with start<end. Complete only on the stated small domain.',
      'exhaustive enumeration + property-based testing (Hypothesis) against an interval-arithmetic reference model',
      'DESIGN.md section 4, C17')
