#!/bin/bash
# usage: seedtest_wt.sh <seed dir name under seeded/> [check id] [tier]
# Like seedtest.sh but never touches /repo: applies the patch in a scratch worktree of /repo HEAD and points the check
# at it with VERIF_REPO. Several of these can run in parallel (each needs its own copy of the evidence dir: the
# evidence written by this run is discarded).
name="$1"; pid="${2:-${name%%-*}}"; tier="${3:-quick}"
pid="${pid:0:3}"
patch="/verif/seeded/$name/patch.diff"
wt=$(mktemp -d /tmp/seedwt_${name}_XXXX); rmdir "$wt"
git -C /repo worktree add -q --detach "$wt" HEAD || exit 3
if ! git -C "$wt" apply "$patch" 2>/dev/null; then echo "$name: PATCH DOES NOT APPLY"; git -C /repo worktree remove --force "$wt"; exit 3; fi
copy=$(mktemp -d /tmp/verifcopy_${name}_XXXX)
rsync -a --exclude .git --exclude replays --exclude evidence /verif/ "$copy"/
out=$(cd "$copy" && VERIF_REPO="$wt" VERIF_TIER=$tier ./check "$pid" 2>&1); rc=$?
nviol=$(echo "$out" | grep -c '^VIOLATION')
if [ $rc -eq 1 ]; then echo "$name vs $pid: DETECTED ($nviol signatures) :: $(echo "$out" | grep -m3 'signature:' | tr '\n' ' ')";
else echo "$name vs $pid: MISSED rc=$rc :: $(echo "$out" | tail -1)"; fi
rm -rf "$copy"
git -C /repo worktree remove --force "$wt"
