#!/usr/bin/env python3
"""Regenerates MANIFEST.json from the table below (keeps it schema-valid)."""
import json, os
HERE = os.path.dirname(os.path.dirname(os.path.abspath(__file__)))
props = [json.loads(l) for l in open(os.path.join(HERE, 'properties.jsonl'))]

CLAIMED = {}
def claim(pid, category, text, note, technique, design):
    CLAIMED[pid] = dict(category=category, text=text, note=note, technique=technique, design=design)

exec(open(os.path.join(HERE, 'tools', 'claims.py')).read())

NOT_APPLICABLE = {}
checks = []
for p in props:
    pid = p['id']
    if pid not in CLAIMED or not os.path.exists(os.path.join(HERE, 'scmoverif', 'props', pid.lower() + '.py')):
        NOT_APPLICABLE[pid] = 'check not built yet in this commit (planned, see DESIGN.md section 4); nothing is claimed for it'
        continue
    c = CLAIMED[pid]
    checks.append({
        'property_id': pid,
        'quick_cmd': 'VERIF_TIER=quick ./check %s' % pid,
        'thorough_cmd': 'VERIF_TIER=thorough ./check %s' % pid,
        'evidence_file': 'evidence/%s.json' % pid,
        'replay_cmd_template': './check %s --replay {path}' % pid,
        'engine': 'scmoverif',
        'level_claimed': {'category': c['category'], 'text': c['text'], 'design_ref': c['design']},
        'level_note': c['note'],
        'technique': c['technique'],
    })
m = {
    'version': 1,
    'setup_cmd': './setup.sh',
    'hooks': {
        'guard': 'SCMO_VERIF',
        'enable': 'no source hooks: instrumentation is done by the checks from their own process (monkeypatched pool / open / sleep), the package is pure Python and imported straight from /repo',
        'baseline_off_cmd': 'cd /repo && /venv/bin/python -m pytest -ra -q -p no:cacheprovider --timeout=900 --continue-on-collection-errors',
        'source_commits': [],
        'add_only': True,
    },
    'engines': [{'name': 'scmoverif', 'path': 'scmoverif/', 'serves_properties': [c['property_id'] for c in checks],
                 'kind_free_text': 'Hypothesis-driven generators + explicit oracles, 16-way sharded runner with root-cause bucketing, bounded shrinking and plain-JSON replay files'}],
    'checks': checks,
    'not_applicable': [{'property_id': k, 'reason': v} for k, v in sorted(NOT_APPLICABLE.items())],
    'notes': 'Every check: ./check <ID> (VERIF_TIER, VERIF_SEED). Exit 0 held / 1 VIOLATION / 2 harness error. See DESIGN.md.',
}
json.dump(m, open(os.path.join(HERE, 'MANIFEST.json'), 'w'), indent=1)
print('claimed', len(checks), 'not_applicable', len(NOT_APPLICABLE))
