#!/bin/bash
# usage: validate_seed.sh <seed dir containing patch.diff demo.py meta.json> <label>
# Confirms in a scratch worktree of /repo HEAD: demo passes without patch, fails with it, test-suite passes with it.
src="$1"; label="$2"
wt=$(mktemp -d /tmp/seedval_${label}_XXXX)
rmdir "$wt"
git -C /repo worktree add -q --detach "$wt" HEAD || exit 3
res="$src/validation.txt"
{
cd "$wt"
echo "base=$(git rev-parse --short HEAD)"
if ! git apply --check "$src/patch.diff" 2>/dev/null; then echo "apply=FAIL"; else echo "apply=ok"; fi
PYTHONPATH="$wt" REPO_ROOT="$wt" timeout 300 /venv/bin/python "$src/demo.py" "$wt" >/dev/null 2>&1; echo "demo_clean_exit=$?"
git apply "$src/patch.diff" 2>/dev/null
PYTHONPATH="$wt" REPO_ROOT="$wt" timeout 300 /venv/bin/python "$src/demo.py" "$wt" >/dev/null 2>&1; echo "demo_patched_exit=$?"
PYTHONPATH="$wt" timeout 1200 /venv/bin/python -m pytest -q -p no:cacheprovider --timeout=900 tests 2>&1 | tail -1 | sed 's/^/tests_patched=/'
} > "$res" 2>&1
cd /
git -C /repo worktree remove --force "$wt"
cat "$res" | tr '\n' ' '; echo " <- $label"
