#!/bin/bash
# Runs every claimed check (quick tier by default) on /repo and prints one line per check.
cd "$(dirname "$0")/.." || exit 2
tier="${1:-quick}"
for id in $(python3 -c "import json;print(' '.join(c['property_id'] for c in json.load(open('MANIFEST.json'))['checks']))"); do
  out=$(VERIF_TIER=$tier ./check $id 2>&1); rc=$?
  echo "rc=$rc $(echo "$out" | tail -1)"
  if [ $rc -ne 0 ]; then echo "$out" | grep -E "VIOLATION|signature|HARNESS" | head -10; fi
done
