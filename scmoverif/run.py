"""python -m scmoverif.run <ID> [--tier quick|thorough] [--replay file]

exit 0: property held on everything explored (KNOWN-FINDING lines possible)
exit 1: VIOLATION property=<id> replay=<path>
exit 2: harness error (never prints VIOLATION)
"""
import argparse
import os
import sys
import traceback


def main():
    ap = argparse.ArgumentParser()
    ap.add_argument('pid')
    ap.add_argument('--tier', default=os.environ.get('VERIF_TIER', 'quick'), choices=['quick', 'thorough'])
    ap.add_argument('--replay', default=None)
    a = ap.parse_args()
    try:
        seed = int(os.environ.get('VERIF_SEED', '1') or 1)
    except ValueError:
        seed = 1
    repo = os.path.realpath(os.environ.get('VERIF_REPO', '/repo'))
    try:
        import singlecellmultiomics
        got = os.path.realpath(singlecellmultiomics.__file__)
        if not got.startswith(repo + os.sep):
            print('HARNESS ERROR: singlecellmultiomics imported from %s, expected under %s' % (got, repo),
                  file=sys.stderr)
            return 2
        from scmoverif import core
        if a.replay:
            return core.run_replay(a.pid.upper(), a.replay)
        return core.run_property(a.pid.upper(), a.tier, seed)
    except SystemExit:
        raise
    except BaseException:
        traceback.print_exc()
        print('HARNESS ERROR: uncaught exception in runner', file=sys.stderr)
        return 2


if __name__ == '__main__':
    sys.exit(main())
