"""Shared runner machinery: parts, sharding, violation bucketing, shrinking, evidence.

A property module exposes

    ID          'C10'
    LEVEL       evidence level category ('exploration' | 'fault_enumeration')
    RULE        text: how cases are generated and what makes one non-trivial
    ASSUMPTIONS list of strings
    def parts(tier) -> list[Part]
    (optional) NONTRIVIAL_FLOOR  float, minimal fraction of non-trivial cases (default 0.0)

A Part is either a Hypothesis part (strategy producing a plain-data *case*, run for
`examples` cases per tier) or an enumeration part (explicit finite iterable of cases).
`evaluate(case)` runs the real code and the oracle and returns an Outcome; it never
raises for a property violation (it reports it), it raises only for harness errors.
"""
import hashlib
import json
import os
import sys
import time
import traceback
import itertools
import shutil
import tempfile
from concurrent.futures import ProcessPoolExecutor
import multiprocessing

VERIF_ROOT = os.path.dirname(os.path.dirname(os.path.abspath(__file__)))
NPROC = min(16, os.cpu_count() or 1)


class Outcome:
    __slots__ = ('violations', 'nontrivial', 'labels', 'note')

    def __init__(self, violations=None, nontrivial=False, labels=(), note=None):
        self.violations = list(violations or [])   # list of (signature:str, message:str)
        self.nontrivial = bool(nontrivial)
        self.labels = list(labels)
        self.note = note

    def bad(self, sig, msg):
        self.violations.append((str(sig), str(msg)))
        return self

    def label(self, *names):
        self.labels.extend(names)
        return self


class Part:
    def __init__(self, name, evaluate, strategy=None, examples=None, cases=None,
                 shards=None, exhaustive=False, chunk=None, shrinkable=True):
        self.name = name
        self.evaluate = evaluate
        self.strategy = strategy        # callable () -> hypothesis strategy (built lazily in worker)
        self.examples = examples        # total number of hypothesis examples
        self.cases = cases              # callable () -> iterable of cases (enumeration part)
        self.shards = shards
        self.exhaustive = exhaustive
        self.chunk = chunk
        self.shrinkable = shrinkable


def canon(case):
    return json.dumps(case, sort_keys=True, separators=(',', ':'), default=_default)


def _default(o):
    if isinstance(o, (set, frozenset)):
        return sorted(o)
    if isinstance(o, bytes):
        return o.decode('latin-1')
    if isinstance(o, tuple):
        return list(o)
    try:
        import numpy as np
        if isinstance(o, np.integer):
            return int(o)
        if isinstance(o, np.floating):
            return float(o)
    except Exception:
        pass
    return repr(o)


def digest(case):
    return hashlib.sha1(canon(case).encode()).digest()[:10]


def derive_seed(seed, *parts):
    h = hashlib.sha256(('%d|' % seed + '|'.join(str(p) for p in parts)).encode()).digest()
    return int.from_bytes(h[:8], 'big')


class _Stop(BaseException):
    pass


class ShardResult:
    def __init__(self):
        self.evaluations = 0
        self.nontrivial_digests = set()
        self.labels = {}
        self.samples = []           # first few nontrivial
        self.found = {}             # sig -> (size, case, message)
        self.known_hits = {}        # sig -> count
        self.error = None
        self.maxrss_mb = 0


def _record(res, case, out, known_sigs, max_samples=3):
    res.evaluations += 1
    for l in out.labels:
        res.labels[l] = res.labels.get(l, 0) + 1
    if out.nontrivial:
        res.nontrivial_digests.add(digest(case))
        res.labels['nontrivial'] = res.labels.get('nontrivial', 0) + 1
        if len(res.samples) < max_samples:
            res.samples.append(case)
    for sig, msg in out.violations:
        if sig in known_sigs:
            res.known_hits[sig] = res.known_hits.get(sig, 0) + 1
            continue
        size = len(canon(case))
        cur = res.found.get(sig)
        if cur is None or size < cur[0]:
            res.found[sig] = (size, case, msg)


CHUNK = 1000


def _load_module(pid):
    import importlib
    return importlib.import_module('scmoverif.props.%s' % pid.lower())


def _get_part(pid, tier, part_name):
    mod = _load_module(pid)
    for p in mod.parts(tier):
        if p.name == part_name:
            return p
    raise KeyError(part_name)


def _worker_init():
    # every worker gets a private scratch dir, removed by the parent at the end
    pass


def run_hyp_shard(args):
    pid, tier, part_name, shard, n_examples, seed, known_sigs, scratch = args
    os.environ['SCMOVERIF_SCRATCH'] = scratch
    res = ShardResult()
    try:
        from hypothesis import given, settings, seed as hseed, HealthCheck, Phase
        part = _get_part(pid, tier, part_name)
        strat = part.strategy()
        known = set(known_sigs)

        # Hypothesis keeps a tree of everything it generated in one run: a shard of many thousand large cases grows to
        # gigabytes. The shard is therefore run as consecutive chunks of at most CHUNK examples, each a fresh Hypothesis
        # run with its own derived seed (the first chunk uses the seed a single run would use).
        done, chunk = 0, 0
        while done < n_examples:
            n = min(CHUNK, n_examples - done)
            sd = derive_seed(seed, pid, part_name, shard) if chunk == 0 else derive_seed(seed, pid, part_name, shard, 'chunk%d' % chunk)

            @hseed(sd)
            @settings(max_examples=n, database=None, deadline=None, derandomize=False,
                      report_multiple_bugs=False, phases=[Phase.generate],
                      suppress_health_check=list(HealthCheck))
            @given(strat)
            def prop(case):
                out = part.evaluate(case)
                _record(res, case, out, known)

            prop()
            del prop
            done += n
            chunk += 1
            import gc
            gc.collect()
    except Exception:
        res.error = 'part %s shard %d: %s' % (part_name, shard, traceback.format_exc())
    try:
        import resource
        res.maxrss_mb = resource.getrusage(resource.RUSAGE_SELF).ru_maxrss / 1024.0
    except Exception:
        pass
    return res


def run_enum_shard(args):
    pid, tier, part_name, shard, nshards, known_sigs, scratch = args
    os.environ['SCMOVERIF_SCRATCH'] = scratch
    res = ShardResult()
    try:
        part = _get_part(pid, tier, part_name)
        known = set(known_sigs)
        for i, case in enumerate(part.cases()):
            if i % nshards != shard:
                continue
            out = part.evaluate(case)
            _record(res, case, out, known, max_samples=2)
    except Exception:
        res.error = 'part %s shard %d: %s' % (part_name, shard, traceback.format_exc())
    try:
        import resource
        res.maxrss_mb = resource.getrusage(resource.RUSAGE_SELF).ru_maxrss / 1024.0
    except Exception:
        pass
    return res


def shrink_case(args):
    """Re-run Hypothesis for one signature with shrinking, time bounded. Returns smallest case."""
    pid, tier, part_name, sig, seed, shard, n_examples, budget_s, start_case, scratch = args
    os.environ['SCMOVERIF_SCRATCH'] = scratch
    from hypothesis import given, settings, seed as hseed, HealthCheck, Phase
    part = _get_part(pid, tier, part_name)
    best = {'size': len(canon(start_case)), 'case': start_case}
    t0 = time.time()
    if part.strategy is None or not part.shrinkable:
        return best['case']
    strat = part.strategy()

    @hseed(derive_seed(seed, pid, part_name, shard))
    @settings(max_examples=max(n_examples, 50), database=None, deadline=None, derandomize=False,
              report_multiple_bugs=False, phases=[Phase.generate, Phase.shrink],
              suppress_health_check=list(HealthCheck))
    @given(strat)
    def prop(case):
        if time.time() - t0 > budget_s:
            raise _Stop()
        out = part.evaluate(case)
        for s, m in out.violations:
            if s == sig:
                size = len(canon(case))
                if size <= best['size']:
                    best['size'] = size
                    best['case'] = case
                raise AssertionError(sig)

    try:
        prop()
    except _Stop:
        pass
    except AssertionError:
        pass
    except Exception:
        pass
    return best['case']


def known_findings(pid):
    path = os.path.join(VERIF_ROOT, 'known_findings.json')
    if not os.path.exists(path):
        return {}, []
    data = json.load(open(path))
    known = {}
    fixed = []
    for e in data.get('findings', []):
        if e.get('property') != pid:
            continue
        if e.get('status') == 'known':
            known[e['signature']] = e
        else:
            fixed.append(e)
    return known, fixed


def replay_path(pid, sig):
    d = os.path.join(VERIF_ROOT, 'replays', pid)
    os.makedirs(d, exist_ok=True)
    h = hashlib.sha1(sig.encode()).hexdigest()[:12]
    return os.path.join(d, '%s.json' % h)


def run_property(pid, tier, seed):
    t0 = time.time()
    mod = _load_module(pid)
    known, fixed = known_findings(pid)
    known_sigs = sorted(known)
    parts = mod.parts(tier)
    scratch_root = tempfile.mkdtemp(prefix='scmoverif_%s_' % pid)
    total = ShardResult()
    part_stats = {}
    errors = []
    all_found = {}    # sig -> (size, case, msg, part, shard, n)
    exhaustive_parts = []
    try:
        # regression tier: committed replay files of earlier (repaired) findings, run without Hypothesis
        regdir = os.path.join(VERIF_ROOT, 'regressions', pid)
        regfiles = sorted(os.listdir(regdir)) if os.path.isdir(regdir) else []
        pmap = {p.name: p for p in parts}
        os.environ['SCMOVERIF_SCRATCH'] = os.path.join(scratch_root, 'regress')
        os.makedirs(os.environ['SCMOVERIF_SCRATCH'], exist_ok=True)
        for fn in regfiles:
            data = json.load(open(os.path.join(regdir, fn)))
            part = pmap.get(data.get('part'))
            if part is None:
                errors.append('regression %s names unknown part %r' % (fn, data.get('part')))
                continue
            out = part.evaluate(data['case'])
            total.labels['regression cases'] = total.labels.get('regression cases', 0) + 1
            for sig, msg in out.violations:
                if sig in known:
                    total.known_hits[sig] = total.known_hits.get(sig, 0) + 1
                    continue
                cur = all_found.get(sig)
                if cur is None:
                    all_found[sig] = (len(canon(data['case'])), data['case'], msg, part, 0, 1)
        ctx = multiprocessing.get_context('fork')
        with ProcessPoolExecutor(max_workers=NPROC, mp_context=ctx) as ex:
            futures = []
            for part in parts:
                if part.cases is not None:
                    nsh = part.shards or NPROC
                    for sh in range(nsh):
                        sd = os.path.join(scratch_root, '%s_%d' % (part.name, sh))
                        os.makedirs(sd, exist_ok=True)
                        futures.append((part, sh, 0, ex.submit(
                            run_enum_shard, (pid, tier, part.name, sh, nsh, known_sigs, sd))))
                    if part.exhaustive:
                        exhaustive_parts.append(part.name)
                else:
                    nsh = part.shards or min(NPROC, max(1, part.examples // 5))
                    per = -(-part.examples // nsh)
                    for sh in range(nsh):
                        sd = os.path.join(scratch_root, '%s_%d' % (part.name, sh))
                        os.makedirs(sd, exist_ok=True)
                        futures.append((part, sh, per, ex.submit(
                            run_hyp_shard, (pid, tier, part.name, sh, per, seed, known_sigs, sd))))
            for part, sh, per, fut in futures:
                r = fut.result()
                total.maxrss_mb = max(total.maxrss_mb, getattr(r, 'maxrss_mb', 0))
                if r.error:
                    errors.append(r.error)
                ps = part_stats.setdefault(part.name, {'evaluations': 0, 'nontrivial': 0})
                ps['evaluations'] += r.evaluations
                ps['nontrivial'] += r.labels.get('nontrivial', 0)
                total.evaluations += r.evaluations
                total.nontrivial_digests |= r.nontrivial_digests
                for k, v in r.labels.items():
                    total.labels[k] = total.labels.get(k, 0) + v
                for k, v in r.known_hits.items():
                    total.known_hits[k] = total.known_hits.get(k, 0) + v
                if len(total.samples) < 8:
                    total.samples.extend(r.samples[:2])
                for sig, (size, case, msg) in r.found.items():
                    cur = all_found.get(sig)
                    if cur is None or size < cur[0]:
                        all_found[sig] = (size, case, msg, part, sh, per)

            # shrink each unknown signature (bounded)
            violations_out = []
            if all_found:
                budget = 25 if tier == 'quick' else 180
                sfuts = []
                for sig, (size, case, msg, part, sh, per) in sorted(all_found.items())[:12]:
                    sd = os.path.join(scratch_root, 'shrink_%s' % hashlib.sha1(sig.encode()).hexdigest()[:8])
                    os.makedirs(sd, exist_ok=True)
                    sfuts.append((sig, msg, part, case, ex.submit(
                        shrink_case, (pid, tier, part.name, sig, seed, sh, per, budget, case, sd))))
                for sig, msg, part, case, fut in sfuts:
                    try:
                        small = fut.result(timeout=budget + 120)
                    except Exception:
                        small = case
                    violations_out.append((sig, msg, part.name, small))
    finally:
        shutil.rmtree(scratch_root, ignore_errors=True)

    wall = time.time() - t0
    # ---- reporting
    status = 0
    for sig, msg, pname, case in violations_out:
        path = replay_path(pid, sig)
        with open(path, 'w') as f:
            json.dump({'property': pid, 'part': pname, 'signature': sig, 'message': msg,
                       'tier': tier, 'case': json.loads(canon(case))}, f, indent=1, sort_keys=True)
        print('VIOLATION property=%s replay=%s' % (pid, path))
        print('  signature: %s' % sig)
        print('  message: %s' % msg[:2000])
        status = 1
    for sig in known_sigs:
        n = total.known_hits.get(sig, 0)
        if n:
            print('KNOWN-FINDING: property=%s %s (signature %s; %d cases matched and excluded)' % (
                pid, known[sig].get('what_fails', ''), sig, n))
    if errors:
        for e in errors[:3]:
            print('HARNESS ERROR: %s' % e, file=sys.stderr)
        status = 2 if status == 0 else status

    n_nontriv = len(total.nontrivial_digests)
    floor = getattr(mod, 'NONTRIVIAL_FLOOR', 0.0)
    frac = (total.labels.get('nontrivial', 0) / total.evaluations) if total.evaluations else 0.0
    if status == 0 and (total.evaluations == 0 or n_nontriv < 2 or frac < floor):
        print('HARNESS ERROR: generator degenerated: %d evaluations, %d distinct non-trivial, '
              'fraction %.3f < floor %.3f' % (total.evaluations, n_nontriv, frac, floor), file=sys.stderr)
        status = 2

    evidence = {
        'property_id': pid,
        'tier': tier,
        'seed': seed,
        'level': mod.LEVEL,
        'coverage': {
            'evaluations': total.evaluations,
            'distinct_nontrivial': n_nontriv,
            'nontrivial_fraction': round(frac, 4),
            'rule': mod.RULE,
            'samples': [json.loads(canon(s)) for s in total.samples[:6]],
            'classes': dict(sorted(total.labels.items())),
            'parts': part_stats,
            'exhaustive': bool(exhaustive_parts) and len(exhaustive_parts) == len(parts),
            'exhaustive_parts': exhaustive_parts,
            'excluded_known_finding_cases': dict(total.known_hits),
            'new_violation_signatures': [v[0] for v in violations_out],
            'harness_errors': len(errors),
        },
        'assumptions': list(getattr(mod, 'ASSUMPTIONS', [])),
        'wall_s': round(wall, 2),
        'violations': len(violations_out),
    }
    os.makedirs(os.path.join(VERIF_ROOT, 'evidence'), exist_ok=True)
    with open(os.path.join(VERIF_ROOT, 'evidence', '%s.json' % pid), 'w') as f:
        json.dump(evidence, f, indent=1, sort_keys=True)
    print('%s tier=%s seed=%d evaluations=%d distinct_nontrivial=%d (%.1f%%) violations=%d '
          'known=%d wall=%.1fs maxrss=%dMB' % (pid, tier, seed, total.evaluations, n_nontriv, 100 * frac,
                                               len(violations_out), sum(total.known_hits.values()), wall, total.maxrss_mb))
    return status


def run_replay(pid, path):
    mod = _load_module(pid)
    data = json.load(open(path))
    tier = data.get('tier', 'quick')
    part = None
    for p in mod.parts(tier):
        if p.name == data['part']:
            part = p
    if part is None:
        print('HARNESS ERROR: no part %s' % data['part'], file=sys.stderr)
        return 2
    scratch = tempfile.mkdtemp(prefix='scmoverif_replay_')
    os.environ['SCMOVERIF_SCRATCH'] = scratch
    try:
        out = part.evaluate(data['case'])
    finally:
        shutil.rmtree(scratch, ignore_errors=True)
    known, _ = known_findings(pid)
    status = 0
    for sig, msg in out.violations:
        if sig in known:
            print('KNOWN-FINDING: property=%s %s' % (pid, known[sig].get('what_fails', '')))
            continue
        print('VIOLATION property=%s replay=%s' % (pid, path))
        print('  signature: %s' % sig)
        print('  message: %s' % msg[:2000])
        status = 1
    if status == 0:
        print('replay of %s: property held' % path)
    return status


def scratch_dir():
    d = os.environ.get('SCMOVERIF_SCRATCH')
    if not d:
        d = tempfile.mkdtemp(prefix='scmoverif_adhoc_')
        os.environ['SCMOVERIF_SCRATCH'] = d
    return d
