"""Library simulator with ground truth: plain-data spec -> BAM records + truth table.

A spec is plain JSON-able data drawn by Hypothesis (spec_strategy). realize(spec) turns it into record dicts for
bamsim.write_bam and a truth dictionary. All pseudo-random sequence content derives from spec['seqseed'].
"""
import random
from hypothesis import strategies as st

SMALL = [200, 500, 1500, 5000, 99999]
LARGE = [100000, 100001, 150000, 400000]
UMI_POOL = ['ACG', 'ACT', 'AGT', 'TTT', 'TTA', 'GAC', 'CCA', 'ANG']   # neighbours at distance 1 and 2, one with N
BARCODES = ['AAACCCGG', 'TTTGGGAA', 'CCCAAATT', 'GGGTTTCC', 'ACACACAC', 'TGTGTGTG', 'AGAGAGAG', 'TCTCTCTC']


def spec_strategy(methods=('nla', 'chic'), max_contigs=6, max_mols=14, extras=True, contig_classes=('small', 'large'),
                  min_contigs=1, naming=('encoded', 'tagged'), max_cells=4, umis=None, positions='spread'):
    @st.composite
    def spec(draw):
        method = draw(st.sampled_from(list(methods)))
        nc = draw(st.integers(min_contigs, max_contigs))
        contigs = []
        for i in range(nc):
            cls = draw(st.sampled_from(list(contig_classes)))
            ln = draw(st.sampled_from(SMALL if cls == 'small' else LARGE))
            contigs.append(['ctg%d%s' % (i, 's' if ln < 100000 else 'L'), ln])
        if draw(st.booleans()):
            contigs = list(draw(st.permutations(contigs)))
        ncell = draw(st.integers(1, max_cells))
        mols = []
        empty = set(draw(st.lists(st.integers(0, nc - 1), max_size=max(0, nc - 1), unique=True))) if nc > 1 else set()
        pool = umis or UMI_POOL
        for m in range(draw(st.integers(1, max_mols))):
            tid = draw(st.integers(0, nc - 1))
            if tid in empty:
                continue
            L = contigs[tid][1]
            if positions == 'spread':
                site = draw(st.integers(60, max(61, L - 140)))
            else:
                site = draw(st.sampled_from(positions))
                site = min(max(60, site), L - 140)
            copies = []
            for c in range(draw(st.sampled_from([1, 1, 2, 2, 3, 5]))):
                copies.append({'r1len': draw(st.integers(20, 50)),
                               'r2': draw(st.sampled_from(['none', 'mapped', 'mapped', 'mapped'])),
                               'gap': draw(st.integers(0, 40)), 'r2len': draw(st.integers(20, 40)),
                               'clip': draw(st.sampled_from([0, 0, 0, 2, 5])),
                               'lane': draw(st.sampled_from([1, 1, 1, 2]))})
            mol = {'tid': tid, 'site': site, 'rev': draw(st.booleans()), 'cell': draw(st.integers(0, ncell - 1)),
                   'umi': draw(st.sampled_from(pool)), 'copies': copies}
            if mols and draw(st.integers(0, 3)) == 0:
                # another molecule of the same cell at the same cut (other UMI, other fragment ends): shares a hash group
                src = mols[draw(st.integers(0, len(mols) - 1))]
                mol.update(tid=src['tid'], site=src['site'], rev=src['rev'], cell=src['cell'])
                if nc > 1 and draw(st.integers(0, 2)) == 0:
                    # ... or the same coordinate, cell, strand and UMI on ANOTHER contig: a different molecule
                    other = draw(st.integers(0, nc - 1))
                    if other != src['tid'] and other not in empty and src['site'] < contigs[other][1] - 140:
                        mol.update(tid=other, umi=src['umi'])
            elif not mol['rev'] and draw(st.integers(0, 11)) == 0:
                mol['site'] = 0        # a forward molecule cut at the very first base of its contig
            elif mols and draw(st.integers(0, 3)) == 0:
                # a molecule about half a buffer window (5000 bp) downstream of an earlier one: when it is read, only part
                # of what is buffered around the earlier site may leave the buffer
                src = mols[draw(st.integers(0, len(mols) - 1))]
                far = src['site'] + 5000 + draw(st.integers(-130, 170))
                if far < contigs[src['tid']][1] - 140:
                    mol.update(tid=src['tid'], site=far)
            mols.append(mol)
        big = [i for i in range(nc) if i not in empty and contigs[i][1] >= 6000]
        if big and draw(st.integers(0, 5)) == 0:
            # two molecules of one cell at one cut, UMIs far apart, one ending ~100 bp further downstream than the other,
            # and a third molecule whose end lies half a buffer window (5000 bp) behind a point between these two ends:
            # when it is read, only one of the two molecules of that cut may leave the buffer
            tid = draw(st.sampled_from(big))
            site = draw(st.integers(60, contigs[tid][1] - 5400))
            cell = draw(st.integers(0, ncell - 1))
            short = {'r1len': 20, 'r2': 'none', 'gap': 0, 'r2len': 20, 'clip': 0, 'lane': 1}
            long_ = {'r1len': 50, 'r2': 'mapped', 'gap': 40, 'r2len': 40, 'clip': 0, 'lane': 1}
            mols.append({'tid': tid, 'site': site, 'rev': False, 'cell': cell, 'umi': pool[0], 'copies': [dict(short), dict(short)]})
            mols.append({'tid': tid, 'site': site, 'rev': False, 'cell': cell, 'umi': pool[3 % len(pool)], 'copies': [dict(long_), dict(short)]})
            mols.append({'tid': tid, 'site': site + 5000 + draw(st.integers(8, 95)), 'rev': False, 'cell': draw(st.integers(0, ncell - 1)),
                         'umi': draw(st.sampled_from(pool)), 'copies': [dict(short)]})
        live = [i for i in range(nc) if i not in empty]
        if live and len(pool) >= 3 and draw(st.integers(0, 5)) == 0:
            # three molecules of one cell at one cut whose UMIs form a chain: the first and the second are 2 apart, the third
            # (arriving last) is within 1 of both - under UMI distance 1 it is compatible with two buffered molecules
            tid = draw(st.sampled_from(live))
            site = draw(st.integers(60, max(61, contigs[tid][1] - 140)))
            cell = draw(st.integers(0, ncell - 1))
            rev = draw(st.booleans())
            one = {'r1len': 30, 'r2': 'mapped', 'gap': 10, 'r2len': 25, 'clip': 0, 'lane': 1}
            for u in (pool[0], pool[2], pool[1]):
                mols.append({'tid': tid, 'site': site, 'rev': rev, 'cell': cell, 'umi': u, 'copies': [dict(one)]})
        ex = []
        if extras:
            kinds = ['unmapped_pair', 'unmapped_pair', 'r1_mapped_r2_unmapped', 'r1_unmapped_r2_mapped', 'orphan_r1',
                     'orphan_r2', 'cross_contig', 'nomotif', 'nomotif', 'nomotif', 'single_unmapped', 'placed_unmapped_pair',
                     'placed_unmapped_pair']
            for e in range(draw(st.integers(0, 8))):
                tid = draw(st.integers(0, nc - 1))
                ex.append({'kind': draw(st.sampled_from(kinds)), 'tid': tid, 'tid2': draw(st.integers(0, nc - 1)),
                           'pos': draw(st.integers(10, max(11, contigs[tid][1] - 120))), 'rev': draw(st.booleans()),
                           'cell': draw(st.integers(0, ncell - 1)), 'umi': draw(st.sampled_from(pool))})
        return {'method': method, 'contigs': contigs, 'mols': mols, 'extras': ex,
                'naming': draw(st.sampled_from(list(naming))), 'seqseed': draw(st.integers(0, 10 ** 6))}
    return spec()


def _seq(rng, n):
    return ''.join(rng.choice('ACGT') for _ in range(n))


def _name_and_tags(spec, serial, cell, umi, lane=1):
    bc = BARCODES[cell % len(BARCODES)]
    umi_safe = umi
    if spec['naming'] == 'encoded':
        name = ('Is:SIM;RN:7;Fc:FLOWCELL;La:%d;Ti:1101;CX:%d;CY:77;Fi:N;CN:0;aa:ACGTAC;aA:ACGTAC;aI:3;LY:simlib;'
                'RX:%s;RQ:%s;BI:%d;bc:%s;BC:%s;MX:NLAIII384C8U3' % (lane, serial, umi_safe, 'A' * len(umi), cell + 1, bc, bc))
        return name, {}, 'SIM:7:FLOWCELL:%d:1101:%d:77' % (lane, serial), 'simlib_%d' % (cell + 1)
    name = 'read%d' % serial
    tags = {'SM': 'cell%d' % cell, 'RX': umi, 'BC': bc, 'MI': bc + umi}
    return name, tags, name, 'cell%d' % cell


FLAG = dict(PAIRED=1, PROPER=2, UNMAP=4, MUNMAP=8, REV=16, MREV=32, R1=64, R2=128)


def realize(spec):
    """Returns (contigs, records, truth). truth: serial -> dict(cls, key, outname, sample, mates)."""
    rng = random.Random(spec['seqseed'])
    contigs = [tuple(c) for c in spec['contigs']]
    method = spec['method']
    records = []
    truth = {}
    serial = [0]

    def new_serial():
        serial[0] += 1
        return serial[0]

    def add_pair(r1, r2, cell, umi, cls, key, lane=1):
        s = new_serial()
        name, tags, outname, sample = _name_and_tags(spec, s, cell, umi, lane)
        mates = []
        for r in (r1, r2):
            if r is None:
                continue
            r['name'] = name
            r.setdefault('tags', {}).update(tags)
            r.setdefault('mapq', 0 if r['flag'] & 4 else 60)
            records.append(r)
            mates.append('R2' if r['flag'] & 128 else 'R1')
        truth[s] = {'cls': cls, 'key': key, 'outname': outname, 'sample': sample, 'mates': mates, 'umi': umi}
        return s

    for mi, m in enumerate(spec['mols']):
        tid, site, rev = m['tid'], m['site'], m['rev']
        L = contigs[tid][1]
        for cp in m['copies']:
            ln = cp['r1len']
            if method == 'nla':
                body = _seq(rng, ln - 4)
                if not rev:
                    seq, start = 'CATG' + body, site
                else:
                    seq, start = body + 'CATG', site + 4 - ln
            else:
                seq = _seq(rng, ln)
                start = site + 1 if not rev else site - ln   # chic: DS = start-1 (fwd) / reference_end (rev)
            start = max(0, start)
            clip = cp['clip']
            if clip:
                # clip on the site side of the read
                if not rev:
                    cigar, pos = '%dS%dM' % (clip, ln - clip), start + clip
                else:
                    cigar, pos = '%dM%dS' % (ln - clip, clip), start
            else:
                cigar, pos = '%dM' % ln, start
            if cp['r2'] == 'none':
                r1 = {'flag': (16 if rev else 0), 'tid': tid, 'pos': pos, 'cigar': cigar, 'seq': seq}
                r2 = None
            else:
                l2 = cp['r2len']
                if not rev:
                    p2 = min(L - l2, start + ln + cp['gap'])
                else:
                    p2 = max(0, start - cp['gap'] - l2)
                f1 = 1 | 2 | 64 | (16 if rev else 32)
                f2 = 1 | 2 | 128 | (32 if rev else 16)
                r1 = {'flag': f1, 'tid': tid, 'pos': pos, 'cigar': cigar, 'seq': seq, 'mtid': tid, 'mpos': p2}
                r2 = {'flag': f2, 'tid': tid, 'pos': p2, 'cigar': '%dM' % l2, 'seq': _seq(rng, l2), 'mtid': tid, 'mpos': pos}
            add_pair(r1, r2, m['cell'], m['umi'], 'valid', [m['cell'], tid, bool(rev), site, m['umi']], lane=cp.get('lane', 1))

    for e in spec['extras']:
        k = e['kind']
        tid, pos, rev = e['tid'], e['pos'], e['rev']
        L = contigs[tid][1]
        pos = min(pos, L - 60)
        s30, t30 = _seq(rng, 30), _seq(rng, 30)
        if method == 'nla':
            s30m = ('CATG' + s30[4:]) if not rev else (s30[:-4] + 'CATG')
        else:
            s30m = s30
        if k == 'unmapped_pair':
            add_pair({'flag': 1 | 4 | 8 | 64, 'tid': -1, 'pos': -1, 'seq': s30},
                     {'flag': 1 | 4 | 8 | 128, 'tid': -1, 'pos': -1, 'seq': t30}, e['cell'], e['umi'], 'unmapped', None)
        elif k == 'placed_unmapped_pair':
            # both mates flagged unmapped but placed on a contig (e.g. alignments hanging over the contig edge)
            add_pair({'flag': 1 | 4 | 8 | 64, 'tid': tid, 'pos': pos, 'seq': s30, 'mtid': tid, 'mpos': pos},
                     {'flag': 1 | 4 | 8 | 128, 'tid': tid, 'pos': pos, 'seq': t30, 'mtid': tid, 'mpos': pos}, e['cell'], e['umi'], 'unmapped', None)
        elif k == 'single_unmapped':
            add_pair({'flag': 4, 'tid': -1, 'pos': -1, 'seq': s30}, None, e['cell'], e['umi'], 'unmapped', None)
        elif k == 'r1_mapped_r2_unmapped':
            add_pair({'flag': 1 | 8 | 64 | (16 if rev else 0), 'tid': tid, 'pos': pos, 'cigar': '30M', 'seq': s30m, 'mtid': tid, 'mpos': pos},
                     {'flag': 1 | 4 | 128 | (32 if rev else 0), 'tid': tid, 'pos': pos, 'seq': t30, 'mtid': tid, 'mpos': pos},
                     e['cell'], e['umi'], 'halfmapped_r1', None)
        elif k == 'r1_unmapped_r2_mapped':
            add_pair({'flag': 1 | 4 | 64 | (32 if rev else 0), 'tid': tid, 'pos': pos, 'seq': s30, 'mtid': tid, 'mpos': pos},
                     {'flag': 1 | 8 | 128 | (16 if rev else 0), 'tid': tid, 'pos': pos, 'cigar': '30M', 'seq': t30, 'mtid': tid, 'mpos': pos},
                     e['cell'], e['umi'], 'halfmapped_r2', None)
        elif k == 'orphan_r1':
            add_pair({'flag': 1 | 2 | 64 | (16 if rev else 32), 'tid': tid, 'pos': pos, 'cigar': '30M', 'seq': s30m, 'mtid': tid,
                      'mpos': min(L - 1, pos + 50)}, None, e['cell'], e['umi'], 'orphan', None)
        elif k == 'orphan_r2':
            add_pair(None, {'flag': 1 | 2 | 128 | (16 if rev else 32), 'tid': tid, 'pos': pos, 'cigar': '30M', 'seq': t30, 'mtid': tid,
                            'mpos': min(L - 1, pos + 50)}, e['cell'], e['umi'], 'orphan', None)
        elif k == 'cross_contig':
            t2 = e['tid2']
            p2 = min(pos, contigs[t2][1] - 60)
            if t2 == tid:
                continue
            add_pair({'flag': 1 | 64 | (16 if rev else 32), 'tid': tid, 'pos': pos, 'cigar': '30M', 'seq': s30m, 'mtid': t2, 'mpos': p2},
                     {'flag': 1 | 128 | (32 if rev else 16), 'tid': t2, 'pos': p2, 'cigar': '30M', 'seq': t30, 'mtid': tid, 'mpos': pos},
                     e['cell'], e['umi'], 'cross_contig', None)
        elif k == 'nomotif':
            bad = s30.replace('CATG', 'CTTG')
            if method == 'nla':
                bad = ('GGTT' + bad[4:]) if not rev else (bad[:-4] + 'GGTT')
            p2 = min(L - 30, pos + 60) if not rev else max(0, pos - 60)
            add_pair({'flag': 1 | 2 | 64 | (16 if rev else 32), 'tid': tid, 'pos': pos, 'cigar': '30M', 'seq': bad, 'mtid': tid, 'mpos': p2},
                     {'flag': 1 | 2 | 128 | (32 if rev else 16), 'tid': tid, 'pos': p2, 'cigar': '30M', 'seq': t30, 'mtid': tid, 'mpos': pos},
                     e['cell'], e['umi'], 'nomotif' if method == 'nla' else 'valid_extra', None)
    return contigs, records, truth
