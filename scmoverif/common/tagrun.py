"""Run the multiome tagger on a simulated library, with the schedule owned by the harness."""
import contextlib
import io
import os
import sys
import pysam


class DetPool:
    """Stand-in for multiprocessing.Pool: jobs run in-process, results are delivered in a drawn order."""
    order_seed = None       # list of ints (drawn); None = submission order
    jobs_seen = 0

    def __init__(self, n=None):
        self.n = n

    def imap_unordered(self, func, tasks):
        results = [func(t) for t in tasks]
        DetPool.jobs_seen = len(results)
        idx = list(range(len(results)))
        seeds = DetPool.order_seed
        if seeds:
            # deterministic permutation from the drawn integers (Fisher-Yates with drawn picks)
            out = []
            for i in range(len(idx)):
                pick = seeds[i % len(seeds)] % len(idx)
                out.append(idx.pop(pick))
            idx = out
        for i in idx:
            yield results[i]

    def imap(self, func, tasks):
        for t in tasks:
            yield func(t)

    def close(self):
        pass

    def join(self):
        pass

    def terminate(self):
        pass

    def __enter__(self):
        return self

    def __exit__(self, *a):
        return False


@contextlib.contextmanager
def quiet():
    """Silence Python-level and C-level stdout/stderr of the code under test."""
    sys.stdout.flush()
    sys.stderr.flush()
    devnull = os.open(os.devnull, os.O_WRONLY)
    old1, old2 = os.dup(1), os.dup(2)
    try:
        os.dup2(devnull, 1)
        os.dup2(devnull, 2)
        with contextlib.redirect_stdout(io.StringIO()), contextlib.redirect_stderr(io.StringIO()):
            yield
    finally:
        sys.stdout.flush()
        sys.stderr.flush()
        os.dup2(old1, 1)
        os.dup2(old2, 2)
        os.close(devnull)
        os.close(old1)
        os.close(old2)


_EJECT_EVERY = [None]
_ITER_CLASS = [None]


def small_interval_iterator():
    """MoleculeIterator with a smaller default check_eject_every (module level: picklable by reference for pool workers)."""
    if _ITER_CLASS[0] is None:
        from singlecellmultiomics.molecule import MoleculeIterator as Base

        class MoleculeIterator(Base):
            def __init__(self, *a, **kw):
                if _EJECT_EVERY[0] is not None:
                    kw.setdefault('check_eject_every', _EJECT_EVERY[0])
                Base.__init__(self, *a, **kw)
        MoleculeIterator.__module__ = __name__
        MoleculeIterator.__qualname__ = 'SmallIntervalMoleculeIterator'
        globals()['SmallIntervalMoleculeIterator'] = MoleculeIterator
        _ITER_CLASS[0] = MoleculeIterator
    return _ITER_CLASS[0]


def run_tagger(bam_in, bam_out, method, multiprocess=False, threads=1, pool='det', order=None, extra=(), eject_every=None):
    """Runs run_multiome_tagging_cmd. pool: 'det' (deterministic stand-in) or 'real'.
    eject_every: the tagger's molecule iterator checks its buffer every N fragments (10,000 in the shipped default, not
    exposed on the command line); a number here scales that interval down so that small libraries reach the buffer check."""
    import singlecellmultiomics.universalBamTagger.bamtagmultiome as tm
    saved_iter = tm.MoleculeIterator
    if eject_every is not None:
        _EJECT_EVERY[0] = eject_every
        tm.MoleculeIterator = small_interval_iterator()
    cmd = [bam_in, '-method', method, '-o', bam_out] + list(extra)
    if multiprocess:
        cmd += ['--multiprocess', '-tagthreads', str(threads), '-temp_folder', os.path.dirname(bam_out)]
    saved_pool, saved_sleep = tm.Pool, tm.sleep
    tm.sleep = lambda s: None
    if multiprocess and pool == 'det':
        DetPool.order_seed = order
        tm.Pool = DetPool
    try:
        with quiet():
            tm.run_multiome_tagging_cmd(cmd)
    finally:
        tm.Pool, tm.sleep = saved_pool, saved_sleep
        tm.MoleculeIterator = saved_iter
        _EJECT_EVERY[0] = None
        DetPool.order_seed = None


def read_records(path, until_eof=True):
    """List of plain tuples for every record of a BAM (primary, secondary, all)."""
    out = []
    with pysam.AlignmentFile(path, check_sq=False) as f:
        for r in f.fetch(until_eof=True) if until_eof else f:
            out.append(r)
    return out


def status_text(bam_out):
    p = bam_out.replace('.bam', '.status.txt')
    if not os.path.exists(p):
        return None
    return open(p).read().strip()


def mate_of(r):
    if not r.is_paired:
        return '*'
    return 'R2' if r.is_read2 else 'R1'
