"""Option namespace, table normalisation and the independent recount used by C10 and C11.

The recount is written from the argparse help texts of bamToCountTable.py and from the
statements of C10/C11. It shares no code with assignReads / read_should_be_counted.
"""
import math
from types import SimpleNamespace
from .bamsim import cigar_ref_len

DEFAULTS = dict(
    alignmentfiles=None, head=None, o=None, bin=None, binTag='DS', sliding=None, bedfile=None,
    showtags=False, featureTags=None, joinedFeatureTags=None, byValue=None, sampleTags='SM',
    proper_pairs_only=False, no_indels=False, max_base_edits=None, no_softclips=False, minMQ=0,
    filterXA=False, dedup=False, divideMultimapping=False, doNotDivideFragments=False,
    contig=None, blacklist=None, r1only=False, r2only=False, filterMP=False, splitFeatures=False,
    featureDelimiter=',', feature_delimiter=',', noNames=False, keepOverBounds=False, bulk=False)


def make_args(bam, opts):
    d = dict(DEFAULTS)
    d.update(opts)
    d['alignmentfiles'] = [bam]
    return SimpleNamespace(**d)


def df_to_dict(df):
    """{(sample tuple, key tuple): weight} without zero / NaN cells."""
    out = {}
    if df is None or df.shape[0] == 0 or df.shape[1] == 0:
        return out
    for col in df.columns:
        s = df[col]
        ckey = col if isinstance(col, tuple) else (col,)
        for idx, v in s.items():
            if v is None or (isinstance(v, float) and math.isnan(v)) or v == 0:
                continue
            ikey = idx if isinstance(idx, tuple) else (idx,)
            ikey = tuple(int(x) if hasattr(x, '__index__') and not isinstance(x, bool) else x for x in ikey)
            out[(tuple(ckey), ikey)] = out.get((tuple(ckey), ikey), 0) + float(v)
    return out


# ---------------------------------------------------------------- independent recount

FLAG_PAIRED, FLAG_PROPER, FLAG_UNMAP, FLAG_MUNMAP = 1, 2, 4, 8
FLAG_R1, FLAG_R2, FLAG_QCFAIL, FLAG_DUP = 64, 128, 512, 1024


def windows(x, b, s):
    """All windows [i*s, i*s+b) that contain x (integer arithmetic only)."""
    # i*s <= x  and  x < i*s + b   <=>   (x-b)/s < i <= x/s
    hi = x // s
    lo = (x - b) // s + 1
    return [(i * s, i * s + b) for i in range(lo, hi + 1)]


def passes_filters(rec, o, blacklist=None, contigs=None):
    flag = rec['flag']
    tags = rec.get('tags') or {}
    if flag & FLAG_UNMAP:
        return False
    if flag & FLAG_QCFAIL:
        return False
    if o.get('r1only') and flag & FLAG_R2:
        return False
    if o.get('r2only') and flag & FLAG_R1:
        return False
    if o.get('filterMP') and tags.get('mp') != 'unique':
        return False
    if rec.get('mapq', 0) < o.get('minMQ', 0):
        return False
    if o.get('proper_pairs_only') and not flag & FLAG_PROPER:
        return False
    cigar = rec.get('cigar') or ''
    if o.get('no_indels') and ('I' in cigar or 'D' in cigar):
        return False
    if o.get('no_softclips') and 'S' in cigar:
        return False
    if o.get('max_base_edits') is not None and 'NM' in tags and int(tags['NM']) > o['max_base_edits']:
        return False
    if o.get('filterXA') and 'XA' in tags:
        for hit in tags['XA'].split(';'):
            if hit and not hit.split(',')[0].endswith('_alt'):
                return False
    if o.get('dedup') and (flag & FLAG_DUP or 'RR' in tags):
        return False
    if blacklist:
        cname = contigs[rec['tid']][0]
        s0 = rec['pos']
        e0 = rec['pos'] + cigar_ref_len(cigar)
        for (c, s, e) in blacklist:
            if c == cname and s <= s0 and e0 <= e:
                return False   # generator guarantees a read is fully inside or fully outside
    return True


def weight(rec, o):
    flag = rec['flag']
    tags = rec.get('tags') or {}
    w = 1.0
    if not (o.get('r1only') or o.get('r2only') or o.get('doNotDivideFragments')):
        if flag & FLAG_PAIRED and not flag & FLAG_MUNMAP:
            w = 0.5
    if o.get('divideMultimapping'):
        if 'XA' in tags:
            n_alt = len([h for h in tags['XA'].split(';') if h])
            w = w / (n_alt + 1)
        elif 'NH' in tags:
            w = w / int(tags['NH'])
    return w


def read_value(rec, tag, contigs):
    """What the documentation calls the value of a feature/sample tag for a read."""
    tags = rec.get('tags') or {}
    if tag in ('chrom', 'reference_name'):
        return contigs[rec['tid']][0] if rec.get('tid', -1) >= 0 else None
    if tag in tags:
        return tags[tag]
    if tag == 'mapping_quality':
        return rec.get('mapq', 0)
    if tag == 'reference_start':      # read attributes are valid feature / bin tags (metaFromRead falls back to getattr)
        return rec.get('pos')
    return None


def recount(contigs, records, o, bed=None, blacklist=None):
    """Expected {(sample tuple, key tuple): weight}. Only for option sets the tool supports."""
    table = {}
    sample_tags = o.get('sampleTags', 'SM').split(',')
    joined = o.get('joinedFeatureTags') is not None
    feats = (o['joinedFeatureTags'] if joined else o['featureTags']).split(',')
    by_value = o.get('byValue')
    b = o.get('bin')
    s = o.get('sliding') or b
    bin_tag = o.get('binTag', 'DS')
    if joined and by_value is not None and by_value not in feats:
        feats = feats + [by_value]
    if b is not None and bin_tag not in feats:
        feats = feats + [bin_tag]
    clen = dict(contigs)

    def add(sample, key, w):
        k = (sample, tuple(key))
        table[k] = table.get(k, 0.0) + w

    def contributions(rec):
        w = weight(rec, o)
        sample = tuple(read_value(rec, t, contigs) for t in sample_tags)
        fv = {t: str(read_value(rec, t, contigs)) for t in feats}
        if joined:
            key = [fv[t] for t in feats if not (b is not None and t == bin_tag) and t != by_value]
            if by_value is not None:
                try:
                    w = float(fv.get(by_value))
                except (TypeError, ValueError):
                    w = 0.0
            return sample, [(key, w, fv)]
        return sample, [([fv[t]], w, fv) for t in feats]

    for rec in records:
        if rec.get('tid', -1) < 0 and not rec['flag'] & FLAG_UNMAP:
            continue
        if not passes_filters(rec, o, blacklist, contigs):
            continue
        cname = contigs[rec['tid']][0]
        if o.get('contig') is not None and cname != o['contig']:
            continue
        sample, contribs = contributions(rec)
        if bed is not None:
            s0 = rec['pos']
            e0 = rec['pos'] + cigar_ref_len(rec['cigar'])
            for (c, bs, be, bname) in bed:
                if c != cname or not (s0 < be and e0 > bs):
                    continue
                for key, w, fv in contribs:
                    k = [by_value] if by_value else key
                    if len(k):
                        add(sample, list(k) + [bs, be, bname], w)
        elif b is not None:
            for key, w, fv in contribs:
                v = fv.get(bin_tag)
                if v is None or v == 'None':
                    continue
                for (ws, we) in windows(int(v), b, s):
                    if not o.get('keepOverBounds') and (ws < 0 or we > clen[cname]):
                        continue
                    add(sample, list(key) + [ws, we], w)
        else:
            for key, w, fv in contribs:
                add(sample, key, w)
    return {k: v for k, v in table.items() if v != 0}


def compare_tables(got, exp, tol=1e-9):
    """Returns list of (kind, key, got, expected)."""
    diffs = []
    for k in sorted(set(got) | set(exp), key=repr):
        g = got.get(k)
        e = exp.get(k)
        if g is None:
            diffs.append(('missing', k, 0, e))
        elif e is None:
            diffs.append(('extra', k, g, 0))
        elif abs(g - e) > tol:
            diffs.append(('weight', k, g, e))
    return diffs
