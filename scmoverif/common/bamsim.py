"""Plain-data -> BAM writer used by several checks (pysam/htslib is trusted base)."""
import os
import re
import pysam

_CIG = re.compile(r'(\d+)([MIDNSHP=X])')
_QUERY = set('MIS=X')
_REF = set('MDN=X')


def cigar_query_len(cigar):
    return sum(int(n) for n, op in _CIG.findall(cigar) if op in _QUERY)


def cigar_ref_len(cigar):
    return sum(int(n) for n, op in _CIG.findall(cigar) if op in _REF)


def make_segment(header, rec):
    """rec: dict(name, flag, tid, pos, mapq, cigar, seq, qual, mtid, mpos, tlen, tags)"""
    a = pysam.AlignedSegment(header)
    a.query_name = rec['name']
    a.flag = rec.get('flag', 0)
    tid = rec.get('tid', -1)
    a.reference_id = tid
    a.reference_start = rec.get('pos', -1) if tid >= 0 else rec.get('pos', -1)
    a.mapping_quality = rec.get('mapq', 0)
    cigar = rec.get('cigar')
    seq = rec.get('seq')
    if seq is None:
        n = cigar_query_len(cigar) if cigar else rec.get('qlen', 10)
        seq = ('ACGT' * (n // 4 + 1))[:n]
    a.query_sequence = seq
    if cigar:
        a.cigarstring = cigar
    qual = rec.get('qual')
    if qual is None:
        a.query_qualities = pysam.qualitystring_to_array('I' * len(seq))
    else:
        a.query_qualities = pysam.qualitystring_to_array(qual)
    a.next_reference_id = rec.get('mtid', -1)
    a.next_reference_start = rec.get('mpos', -1)
    a.template_length = rec.get('tlen', 0)
    for k, v in (rec.get('tags') or {}).items():
        if isinstance(v, float):
            a.set_tag(k, v, 'f')
        else:
            a.set_tag(k, v)
    return a


def sort_key(rec):
    tid = rec.get('tid', -1)
    return (tid if tid >= 0 else 1 << 30, rec.get('pos', -1))


def write_bam(path, contigs, records, sort=True, index=True, extra_header=None):
    """contigs: list of (name, length). records: list of plain dicts. Returns header dict."""
    hd = {'HD': {'VN': '1.6', 'SO': 'coordinate' if sort else 'unsorted'},
          'SQ': [{'SN': n, 'LN': int(l)} for n, l in contigs]}
    if extra_header:
        hd.update(extra_header)
    header = pysam.AlignmentHeader.from_dict(hd)
    recs = sorted(records, key=sort_key) if sort else list(records)
    with pysam.AlignmentFile(path, 'wb', header=header) as out:
        for r in recs:
            out.write(make_segment(header, r))
    if index and sort:
        pysam.index(path)
    return hd
