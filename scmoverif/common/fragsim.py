"""In-memory read construction (no BAM I/O) for fragment / molecule level checks."""
import pysam

_HEADERS = {}


def header(contigs):
    key = tuple((c, int(l)) for c, l in contigs)
    if key not in _HEADERS:
        _HEADERS[key] = pysam.AlignmentHeader.from_dict(
            {'HD': {'VN': '1.6', 'SO': 'coordinate'}, 'SQ': [{'SN': c, 'LN': l} for c, l in key]})
    return _HEADERS[key]


COMP = {'A': 'T', 'C': 'G', 'G': 'C', 'T': 'A', 'N': 'N'}


def revcomp(s):
    return ''.join(COMP[c] for c in reversed(s))


def mk_read(h, name, tid, pos, seq, reverse=False, sample='c1', umi='AAA', cigar=None, qual=None,
            paired=False, read2=False, mate=None, mapq=60, tags=None, unmapped=False, flag_extra=0):
    """mate: (tid, pos, reverse, unmapped) of the mate or None"""
    a = pysam.AlignedSegment(h)
    a.query_name = name
    a.query_sequence = seq
    flag = flag_extra
    if reverse:
        flag |= 16
    if paired:
        flag |= 1 | (128 if read2 else 64)
        if mate is not None:
            if mate[3]:
                flag |= 8
            if mate[2]:
                flag |= 32
    if unmapped:
        flag |= 4
    a.flag = flag
    a.reference_id = tid
    a.reference_start = pos
    a.mapping_quality = 0 if unmapped else mapq
    if not unmapped:
        a.cigarstring = cigar or '%dM' % len(seq)
    a.query_qualities = pysam.qualitystring_to_array(qual if qual is not None else 'I' * len(seq))
    if paired and mate is not None:
        a.next_reference_id = mate[0]
        a.next_reference_start = mate[1]
    if sample is not None:
        a.set_tag('SM', sample)
    if umi is not None:
        a.set_tag('RX', umi)
    for k, v in (tags or {}).items():
        a.set_tag(k, v)
    return a


import re as _re
_CIG = _re.compile(r'(\d+)([MIDNSHP=X])')


def cigar_ops(cigar):
    return [(op, int(n)) for n, op in _CIG.findall(cigar)]


def md_tag(ref, pos, seq, cigar):
    """MD string of a read (query seq in reference orientation) aligned at pos to the reference string ref."""
    md = []
    run = 0
    q = 0
    r = pos
    for op, n in cigar_ops(cigar):
        if op in 'M=X':
            for i in range(n):
                rb = ref[r + i].upper()
                if seq[q + i].upper() == rb:
                    run += 1
                else:
                    md.append(str(run))
                    md.append(rb)
                    run = 0
            q += n
            r += n
        elif op == 'I' or op == 'S':
            q += n
        elif op == 'D':
            md.append(str(run))
            md.append('^' + ref[r:r + n].upper())
            run = 0
            r += n
        elif op == 'N':
            r += n
    md.append(str(run))
    return ''.join(md)


def aligned_pairs(pos, cigar):
    """[(query index, reference position)] of aligned (M/=/X) bases; independent of pysam."""
    out = []
    q = 0
    r = pos
    for op, n in cigar_ops(cigar):
        if op in 'M=X':
            out.extend((q + i, r + i) for i in range(n))
            q += n
            r += n
        elif op in 'IS':
            q += n
        elif op in 'DN':
            r += n
    return out


def ref_len(cigar):
    return sum(n for op, n in cigar_ops(cigar) if op in 'M=XDN')


def write_fasta(path, seqs, width=None):
    """Writes a FASTA file and its .fai index (without calling the in-process samtools dispatcher, which does not give its
    memory back). seqs: list of (name, sequence); width: line width (None = one line per sequence)."""
    index = []
    with open(path, 'w') as f:
        off = 0
        for name, seq in seqs:
            head = '>%s\n' % name
            f.write(head)
            off += len(head)
            w = width or max(1, len(seq))
            index.append('%s\t%d\t%d\t%d\t%d' % (name, len(seq), off, w, w + 1))
            for i in range(0, len(seq), w):
                line = seq[i:i + w] + '\n'
                f.write(line)
                off += len(line)
            if not seq:
                f.write('\n')
                off += 1
    with open(path + '.fai', 'w') as f:
        f.write('\n'.join(index) + '\n')
