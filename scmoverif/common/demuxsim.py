"""Demultiplexing harness: barcode directory, loader cache, read-pair construction, FASTQ parsing.

The generator side may look at the strategy objects to learn where a barcode has to be placed so that a pair is
accepted (generator soundness). Oracles never do: they use LAYOUT below, written by hand from the description /
longName texts of the strategies, and the harness's own codec tables.
"""
import os
import glob
import gzip
import shutil
import string
import random

LETTERS = string.ascii_letters      # the documented 52-letter header-safe quality alphabet


def phred_to_safe(q):
    """expected header-safe encoding of a phred string, saturating at the table top (51)"""
    return ''.join(LETTERS[min(max(0, ord(c) - 33), 51)] for c in q)


def safe_to_phred(s):
    return ''.join(chr(LETTERS.index(c) + 33) for c in s)


# strategy -> layout from the description texts. bc / umi: (mate, start, length); rp: (mate, length) = first bases of
# that mate; lig: (mate, start, length); ins: insert start per mate. 'mates': number of mates the protocol has.
LAYOUT = {
    'CS1C8U4': dict(bc=(0, 0, 8), umi=(0, 8, 4), rp=(1, 6), ins=[12, 6], mates=2),
    'CS2C8U6': dict(umi=(0, 0, 6), bc=(0, 6, 8), rp=(1, 6), ins=[14, 6], mates=2),
    'CS2C8U6NH': dict(umi=(0, 0, 6), bc=(0, 6, 8), ins=[14, 0], mates=2),
    'CS2C8U8S': dict(umi=(1, 0, 8), bc=(1, 8, 8), rp=(0, 6), ins=[6, 16], mates=2),
    'CS2C8U8NNLA': dict(umi=(0, 0, 8), bc=(0, 8, 8), rp=(1, 6), ins=[16, 6], mates=2),
    'CS2C8U6S': dict(umi=(1, 0, 6), bc=(1, 6, 8), rp=(0, 6), ins=[6, 14], mates=2),
    'NLAIII384C8U3': dict(umi=(0, 0, 3), bc=(0, 3, 8), rp=(1, 6), ins=[11, 6], mates=2),
    'NLAIII96C8U3': dict(umi=(0, 0, 3), bc=(0, 3, 8), rp=(1, 6), ins=[11, 6], mates=2),
    'NLAIII384C8U3SE': dict(umi=(0, 0, 3), bc=(0, 3, 8), ins=[11], mates=1),
    'NLAIII96C8U3SE': dict(umi=(0, 0, 3), bc=(0, 3, 8), ins=[11], mates=1),
    'scCHIC384C8U3': dict(umi=(0, 0, 3), bc=(0, 3, 8), lig=(0, 11, 2), rp=(1, 6), ins=[12, 6], mates=2),
    'scCHIC384C8U3l': dict(umi=(0, 0, 3), bc=(0, 3, 8), lig=(0, 11, 2), ins=[12, 0], mates=2),
    'scCHIC384C8U3se': dict(umi=(0, 0, 3), bc=(0, 3, 8), lig=(0, 11, 2), ins=[12], mates=1),
    'MSPJIC8U3': dict(umi=(0, 0, 3), bc=(0, 3, 8), ins=[11, 0], mates=2),
    'SCARC8R2': dict(bc=(1, 0, 8), ins=[0, 8], mates=2),
    'SCARC8R1': dict(bc=(0, 0, 8), ins=[8, 0], mates=2),
    'SCARC8R2R4': dict(bc=(1, 0, 8), rp=(0, 4), ins=[4, 8], mates=2),
    'CHROMC16U12': dict(bc=(0, 0, 16), umi=(0, 16, 12), ins=[28, 0], mates=2),
    'RBSN': dict(umi=(0, 0, 8), bc=(0, 8, 8), enz=(0, 16, 3), ispcr=(0, 19, 15), ins=[34, 0], mates=2),
}

# strategies without a table entry: content dependent or descriptions that do not fix the positions
NO_TABLE = ['ILLU', 'TCHIC', 'CHICTV', 'DamID2', 'DamAndT', 'DamID2_3u4b3u6b', 'DamID2andT_3u4b3u4b', 'DamID2andT_3u4b3u6b', 'DamID2_8bp_noCA']

_CACHE = {}


def barcode_dir(scratch):
    """shipped whitelists + synthetic ones for the aliases that cannot be loaded in this snapshot"""
    import singlecellmultiomics.modularDemultiplexer as md
    src = os.path.join(os.path.dirname(md.__file__), 'barcodes')
    dst = os.path.join(scratch, 'barcodes_%d' % os.getpid())
    if os.path.isdir(dst):
        return dst
    os.makedirs(dst)
    for p in glob.glob(src + '/*'):
        if os.path.basename(p).startswith('10x_3M'):
            continue
        shutil.copy(p, dst)
    rng = random.Random(12345)
    with open(os.path.join(dst, '10x_3M-february-2018.bc'), 'w') as f:
        seen = set()
        while len(seen) < 60:
            seen.add(''.join(rng.choice('ACGT') for _ in range(16)))
        for b in sorted(seen):
            f.write(b + '\n')
    shutil.copy(os.path.join(src, 'DamID2.bc'), os.path.join(dst, 'DamAndT.bc'))
    with open(os.path.join(dst, 'DamID2_scattered_10bp.bc'), 'w') as f:
        seen = set()
        while len(seen) < 48:
            seen.add(''.join(rng.choice('ACGT') for _ in range(10)))
        for i, b in enumerate(sorted(seen)):
            f.write('%d\t%s\n' % (i + 1, b))
    return dst


def get_loader(scratch, hd=0):
    key = (os.getpid(), hd)
    if key in _CACHE:
        return _CACHE[key]
    import io
    import contextlib
    from singlecellmultiomics.barcodeFileParser import barcodeFileParser as bfp
    from singlecellmultiomics.modularDemultiplexer.demultiplexingStrategyLoader import DemultiplexingStrategyLoader
    import singlecellmultiomics.modularDemultiplexer as md
    with contextlib.redirect_stdout(io.StringIO()):
        bp = bfp.BarcodeParser(barcodeDirectory=barcode_dir(scratch), hammingDistanceExpansion=hd, lazyLoad='*')
        ip = bfp.BarcodeParser(barcodeDirectory=os.path.join(os.path.dirname(md.__file__), 'indices'), hammingDistanceExpansion=1)
        loader = DemultiplexingStrategyLoader(barcodeParser=bp, indexParser=ip, indexFileAlias='illumina_merged_ThruPlex48S_RP')
    strategies = {s.shortName: s for s in loader.demultiplexingStrategies}
    whitelists = {}
    res = (loader, strategies, bp, ip, whitelists)
    _CACHE[key] = res
    return res


def whitelist(bp, alias):
    """sorted list of (barcode, index) of an alias (forces the lazy load)"""
    m = bp[alias]
    return sorted(m.items()) if m else []


def index_whitelist(ip):
    return sorted(ip['illumina_merged_ThruPlex48S_RP'].items())


def placement(strategy):
    """Where the generator has to put barcode / UMI so that the strategy accepts the pair (generator side only).
    Returns dict(parts=[(mate, start, length, alias or None)], prefix=[len R1 prefix, len R2 prefix])."""
    s = strategy
    name = s.shortName
    if name == 'ILLU':
        return dict(parts=[], prefix=[0, 0])
    if hasattr(s, 'barcode_slices') and s.barcode_slices is not None:
        parts = []
        pos_b = 0
        for m, sls in enumerate(s.barcode_slices):
            for sl in sls:
                parts.append((m, sl.start, sl.stop - sl.start, s.barcodeFileAlias, pos_b))
                pos_b += sl.stop - sl.start
        return dict(parts=parts, prefix=[s.total_mi_len + 2, 0], scattered=True)
    if name in ('DamID2andT_3u4b3u4b', 'DamID2andT_3u4b3u6b'):
        sub = s.damid_demux if name.endswith('6b') or True else s.transcriptome_demux
        p = placement(sub)
        p['alt'] = placement(s.transcriptome_demux)
        return p
    if name == 'CHICTV':
        p = placement(s.chic_demux)
        return p
    if name == 'DamAndT':
        return placement(s.damid_demux)
    parts = [(s.barcodeRead, s.barcodeStart, s.barcodeLength, s.barcodeFileAlias, 0)]
    pre = [0, 0]
    pre[s.barcodeRead] = max(s.barcodeStart + s.barcodeLength, (s.umiStart + s.umiLength) if s.umiLength else 0)
    return dict(parts=parts, prefix=pre)


def read_fastq(path):
    """independent 4-line FASTQ reader (all members of a multi-member gzip)"""
    if not os.path.exists(path):
        return []
    op = gzip.open if path.endswith('.gz') else open
    with op(path, 'rt') as f:
        lines = f.read().split('\n')
    if lines and lines[-1] == '':
        lines.pop()
    recs = []
    for i in range(0, len(lines) - 3, 4):
        recs.append((lines[i], lines[i + 1], lines[i + 2], lines[i + 3]))
    if len(lines) % 4:
        recs.append(('MALFORMED', '\n'.join(lines[len(lines) - len(lines) % 4:]), '', ''))
    return recs


def header_tags(header):
    """k:v;k:v header -> dict (None if not in that format)"""
    h = header[1:] if header.startswith('@') else header
    out = {}
    try:
        for kv in h.split(';'):
            k, v = kv.split(':', 1)
            out[k] = v
    except ValueError:
        return None
    return out
