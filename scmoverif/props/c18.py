"""C18 - allele lookups agree with the VCF in every loading mode."""
import os
import io
import shutil
import contextlib
import pysam
from hypothesis import strategies as st
from ..core import Part, Outcome, scratch_dir

ID = 'C18'
LEVEL = 'exploration'
NONTRIVIAL_FLOOR = 0.08
RULE = ('Hypothesis-generated histories: a VCF text (2..4 contigs, one named chrUn_x so that the cache is skipped, 1..4 '
        'samples, phased/unphased GT, missing genotypes, multi-base alleles, monomorphic and multi-allelic records; bgzip + '
        'tabix by pysam) with a fixed configuration (sample selection, ignored conversions) and an operation list: '
        'new_resolver(lazyLoad, use_cache) over all four flag combinations (the cache directory persists, so first-run-'
        'writes / later-run-reads is a history) and queries (contig, position, base) over record positions +-1, all bases, '
        'contigs absent from the VCF, with contig switches and returns to evicted contigs. Every answer of getAllelesAt / '
        'has_location is compared with an eager reference resolver of the same configuration and with the harness\'s '
        'reading of the VCF text (exact at clean sites, soundness elsewhere). Non-trivial: >=2 contigs with informative '
        'sites, a lazy resolver returning to an evicted contig, and a cache-reading resolver.')
ASSUMPTIONS = ['positions >= 0 (the loader plants a sentinel at -1)', 'one configuration per cache directory',
               'sites with multi-base alleles: only soundness and agreement between modes; partly missing genotypes: exactly the samples with a called copy of the base (pinned by tests/test_alleles.py)', 'pysam VariantFile / tabix trusted']

BASES = 'ACGT'
CONTIGS = ['chr1', 'chr2', 'chrUn_x', 'chr7']


def strategy():
    @st.composite
    def case(draw):
        nc = draw(st.integers(2, 4))
        contigs = CONTIGS[:nc]
        ns = draw(st.sampled_from([1, 2, 2, 3, 4]))
        # sample names may contain a blank (legal in VCF, columns are tab separated)
        sfmt = draw(st.sampled_from(['S%d', 'S%d', 'S%d', 'Patient %d']))
        samples = [sfmt % (i + 1) for i in range(ns)]
        recs = []
        for ci, c in enumerate(contigs):
            poss = draw(st.lists(st.integers(1, 40), min_size=0 if ci > 1 else 1, max_size=8, unique=True))
            for p in sorted(poss):
                ref = draw(st.sampled_from(BASES))
                nalt = draw(st.sampled_from([1, 1, 1, 1, 2, 2, 0]))      # 0: a record without ALT allele ('.')
                alts = []
                for _ in range(nalt):
                    a = draw(st.sampled_from([b for b in BASES if b != ref] + ['AT', ref + 'G'] * 0 + ['GC']))
                    if a not in alts and a != ref:
                        alts.append(a)
                if draw(st.integers(0, 11)) == 0:
                    ref = ref + 'A'   # deletion-like multi-base reference allele
                gts = []
                phased = draw(st.booleans())
                style = draw(st.sampled_from(['mixed', 'mixed', 'all_ref', 'split', 'split', 'split', 'missing']))
                if not alts:
                    style = draw(st.sampled_from(['all_ref', 'missing', 'missing']))
                for s in samples:
                    def allele():
                        if style == 'all_ref':
                            return 0
                        r = draw(st.integers(0, 9))
                        if r == 0 or (style == 'missing' and r < 4):
                            return '.'
                        return draw(st.integers(0, len(alts)))
                    a, b = allele(), allele()
                    if style == 'split':
                        a = b = (samples.index(s) % (len(alts) + 1))
                    gts.append('%s%s%s' % (a, '|' if phased else '/', b))
                recs.append({'chrom': c, 'pos': p, 'ref': ref, 'alts': alts, 'gts': gts})
        sel = draw(st.sampled_from([None, None, samples[:1], samples[:2], samples]))
        ign = draw(st.sampled_from([None, None, [['C', 'T'], ['G', 'A']]]))
        ops = []
        qcontigs = contigs + ['chrAbsent']

        def queries(c, k):
            here = [x['pos'] for x in recs if x['chrom'] == c]
            for _ in range(k):
                if here and draw(st.integers(0, 4)) > 0:
                    p0 = draw(st.sampled_from(here)) - 1 + draw(st.sampled_from([0, 0, 0, 0, -1, 1]))
                else:
                    p0 = draw(st.integers(0, 45))
                # most lookups ask both questions; some only has_location, some only getAllelesAt (the two entry points
                # load and evict contigs independently)
                ops.append(['q', c, max(0, p0), draw(st.sampled_from(BASES)), draw(st.sampled_from(['both', 'both', 'h', 'a']))])
        # sessions: a resolver is created and tours the contigs (with returns to contigs visited before)
        for sess in range(draw(st.integers(1, 4))):
            if draw(st.integers(0, 5)) == 0:
                # this resolver's cache writes fail after a few lines (ENOSPC); what it leaves behind must not be trusted later
                ops.append(['new_faulty', True, True, draw(st.integers(0, 4))])
            else:
                # most sessions use the selection of the case; some use all samples or an empty selection (other configurations
                # sharing the cache directory: their cache files are kept apart by the selection in the file name)
                ops.append(['new', draw(st.sampled_from([True, True, False])), draw(st.sampled_from([True, True, False])),
                            draw(st.sampled_from(['case', 'case', 'case', 'case', 'all', 'empty']))])
            tour = draw(st.lists(st.sampled_from(qcontigs + contigs[:2] * 2), min_size=1, max_size=5))
            if len(tour) >= 2 and draw(st.booleans()):
                tour.append(tour[0])
            for c in tour:
                queries(c, draw(st.integers(1, 4)))
                if c in contigs and draw(st.integers(0, 3)) == 0:
                    # a read lying over the sites of this contig is resolved (getAllele), then more point lookups follow
                    ops.append(['ga', c, draw(st.integers(0, 10 ** 6))])
                    queries(c, draw(st.integers(1, 3)))
            if len(contigs) >= 2 and draw(st.integers(0, 2)) == 0:
                # allele lookup on A, only a has_location lookup on B (which evicts A in the lazy modes), allele lookup on A again
                ca, cb = draw(st.permutations(contigs))[:2]
                for c_, mode_ in ((ca, 'a'), (cb, 'h'), (ca, 'a')):
                    queries(c_, 1)
                    ops[-1][4] = mode_
        return {'contigs': contigs, 'samples': samples, 'records': recs, 'select': sel, 'ignore': ign, 'ops': ops}
    return case()


def vcf_text(case):
    lines = ['##fileformat=VCFv4.2'] + ['##contig=<ID=%s,length=1000>' % c for c in case['contigs']]
    lines.append('##FORMAT=<ID=GT,Number=1,Type=String,Description="Genotype">')
    lines.append('#CHROM\tPOS\tID\tREF\tALT\tQUAL\tFILTER\tINFO\tFORMAT\t' + '\t'.join(case['samples']))
    for r in case['records']:
        lines.append('%s\t%d\t.\t%s\t%s\t50\tPASS\t.\tGT\t%s' % (r['chrom'], r['pos'], r['ref'], ','.join(r['alts']) or '.', '\t'.join(r['gts'])))
    return '\n'.join(lines) + '\n'


def site_model(case, selection='case'):
    """(contig, pos0) -> dict(kind, bases: base -> samples, carriers: base -> samples (soundness set))"""
    if selection == 'case':
        selection = case['select']
    sel = case['samples'] if selection is None else selection        # None = all samples, [] = no sample
    ign = {tuple(x) for x in case['ignore']} if case['ignore'] else None
    model = {}
    for r in case['records']:
        alleles = [r['ref']] + r['alts']
        per = {}
        missing = multibase = False
        for s, gt in zip(case['samples'], r['gts']):
            if s not in sel:
                continue
            al = []
            for a in gt.replace('|', '/').split('/'):
                if a == '.':
                    al.append(None)
                    missing = True
                else:
                    al.append(alleles[int(a)])
                    if len(alleles[int(a)]) != 1:
                        multibase = True
            per[s] = al
        carriers = {}
        for s, al in per.items():
            for a in al:
                if a is not None and len(a) == 1:
                    carriers.setdefault(a, set()).add(s)
        distinct = set(carriers)
        ignored = bool(ign) and any((r['ref'], b) in ign for b in distinct)
        if multibase:
            kind = 'unclean'
        elif missing:
            # partly missing genotypes: the site is reported with the called bases (pinned by tests/test_alleles.py:
            # "monomorphic: Sample B matches, sample A does not have the site"), unless nothing was called at all
            kind = 'ignored' if ignored else ('missing' if distinct else 'uninformative')
        elif len(distinct) < 2:
            kind = 'uninformative'
        elif ignored:
            kind = 'ignored'
        else:
            kind = 'clean'
        model[(r['chrom'], r['pos'] - 1)] = {'kind': kind, 'carriers': carriers}
    return model


def eval_case(case):
    from singlecellmultiomics.alleleTools import AlleleResolver
    out = Outcome()
    d = os.path.join(scratch_dir(), 'c18_%d' % os.getpid())
    shutil.rmtree(d, ignore_errors=True)
    os.makedirs(d)
    try:
        plain = os.path.join(d, 'v.vcf')
        with open(plain, 'w') as f:
            f.write(vcf_text(case))
        gz = plain + '.gz'
        pysam.tabix_compress(plain, gz, force=True)
        pysam.tabix_index(gz, preset='vcf', force=True)
        ign = {tuple(x) for x in case['ignore']} if case['ignore'] else None
        sessions = {}

        def session(which):
            """(kw, model, eager reference) of a selection: 'case', 'all' (None) or 'empty' ([])"""
            if which not in sessions:
                sel_ = {'case': case['select'], 'all': None, 'empty': []}[which]
                kw_ = dict(select_samples=sel_, ignore_conversions=ign)
                with contextlib.redirect_stdout(io.StringIO()):
                    ref_ = AlleleResolver(gz, lazyLoad=False, use_cache=False, **kw_)
                sessions[which] = (kw_, site_model(case, sel_), ref_)
            return sessions[which]
        try:
            kw, model, ref = session('case')
        except Exception as e:
            return out.bad('exception:eager-reference:%s' % type(e).__name__, repr(e))
        cur = None
        cur_mode = None
        loaded_contig = None
        visited = []
        returned_to_evicted = False
        cache_reader = False
        cache_written = set()
        import singlecellmultiomics.alleleTools.alleleTools as at_mod
        real_gzip = at_mod.gzip

        class FailingGzip:
            def __init__(self, after):
                self.after = after

            def open(self, path, mode='rb', *a, **kw):
                h = real_gzip.open(path, mode, *a, **kw)
                if 'w' not in mode:
                    return h
                outer = self

                class W:
                    def __init__(self):
                        self.n = 0

                    def write(self, x):
                        if self.n >= outer.after:
                            raise OSError(28, 'No space left on device')
                        self.n += 1
                        return h.write(x)

                    def __enter__(self):
                        return self

                    def __exit__(self, *e):
                        h.close()
                        return False

                    def close(self):
                        h.close()
                return W()

            def __getattr__(self, a):
                return getattr(real_gzip, a)
        session_gzip = real_gzip
        for op in case['ops']:
            if op[0] == 'new_faulty':
                session_gzip = FailingGzip(op[3])
                op = ['new', op[1], op[2], 'case']
                out.label('resolver with failing cache writes')
            elif op[0] == 'new':
                session_gzip = real_gzip
            at_mod.gzip = session_gzip
            if op[0] == 'new':
                lazy, cache = op[1], op[2]
                try:
                    kw, model, ref = session(op[3] if len(op) > 3 else 'case')
                except Exception as e:
                    out.bad('exception:eager-reference:%s' % type(e).__name__, repr(e))
                    cur = None
                    continue
                if len(op) > 3 and op[3] != 'case':
                    out.label('session with another sample selection')
                cur_mode = '%s%s' % ('lazy' if lazy else 'eager', '+cache' if cache else '')
                with contextlib.redirect_stdout(io.StringIO()):
                    try:
                        cur = AlleleResolver(gz, lazyLoad=lazy, use_cache=cache, **kw)
                    except Exception as e:
                        out.bad('exception:new:%s:%s' % (cur_mode, type(e).__name__), repr(e))
                        cur = None
                visited = []
                continue
            if cur is None:
                continue
            if op[0] == 'ga':
                _, c, sd = op
                hdr = pysam.AlignmentHeader.from_dict({'HD': {'VN': '1.6'}, 'SQ': [{'SN': x, 'LN': 1000} for x in case['contigs']]})
                rd = pysam.AlignedSegment(hdr)
                rd.query_name = 'resolve_me'
                bases = []
                exp_ga, exact = set(), True
                for p in range(0, 60):
                    site = model.get((c, p))
                    b = 'A'
                    if site and site['carriers']:
                        opts = sorted(site['carriers'])
                        b = opts[(sd + p) % len(opts)]
                        if site['kind'] in ('clean', 'missing'):
                            if len(site['carriers'][b]) == 1:
                                exp_ga |= site['carriers'][b]
                        elif site['kind'] == 'unclean':
                            exact = False
                    bases.append(b)
                rd.query_sequence = ''.join(bases)
                rd.flag = 0
                rd.reference_id = hdr.get_tid(c)
                rd.reference_start = 0
                rd.mapping_quality = 60
                rd.cigarstring = '60M'
                with contextlib.redirect_stdout(io.StringIO()):
                    try:
                        at_mod.gzip = real_gzip
                        want_g = set(ref.getAllele([rd]))
                        at_mod.gzip = session_gzip
                        got_g = set(cur.getAllele([rd]))
                    except Exception as e:
                        out.bad('exception:getAllele:%s:%s' % (cur_mode, type(e).__name__), repr(e))
                        continue
                visited.append(c)
                out.label('read resolved between point lookups')
                if got_g != want_g:
                    out.bad('mode-disagreement:getAllele:%s' % cur_mode, 'read over %s: %s gives %r, eager reference %r' % (c, cur_mode, got_g, want_g))
                if exact and want_g != exp_ga:
                    out.bad('reference-vs-vcf:getAllele', 'read over %s with bases %r resolves to %r, the VCF says %r' % (c, ''.join(bases), want_g, exp_ga))
                continue
            _, c, p0, base = op[:4]
            qmode = op[4] if len(op) > 4 else 'both'
            with contextlib.redirect_stdout(io.StringIO()):
                try:
                    at_mod.gzip = real_gzip
                    want_a, want_h = ref.getAllelesAt(c, p0, base), ref.has_location(c, p0)
                    at_mod.gzip = session_gzip
                    got_h = cur.has_location(c, p0) if qmode in ('both', 'h') else want_h
                    got_a = cur.getAllelesAt(c, p0, base) if qmode in ('both', 'a') else want_a
                except Exception as e:
                    import traceback
                    tb = [x for x in traceback.extract_tb(e.__traceback__) if 'singlecellmultiomics' in x.filename]
                    out.bad('exception:query:%s:%s:%s' % (cur_mode, type(e).__name__, tb[-1].name if tb else '?'), 'query %r: %r' % (op, e))
                    continue
            if 'lazy' in cur_mode or 'cache' in cur_mode:
                if visited and c != visited[-1] and c in visited:
                    returned_to_evicted = True
                if 'cache' in cur_mode and c in cache_written and (not visited or visited[-1] != c):
                    cache_reader = True
                if 'cache' in cur_mode and not c.startswith('chrUn') and c != 'chrAbsent':
                    cache_written.add(c)
            visited.append(c)
            na = None if not want_a else set(want_a)
            ga = None if not got_a else set(got_a)
            site = model.get((c, p0))
            kind = site['kind'] if site else 'absent'
            absent_contig = c == 'chrAbsent'
            if ga != na:
                out.bad('mode-disagreement:getAllelesAt:%s:%s' % (cur_mode, 'absent-contig' if absent_contig else kind),
                        'query (%s,%d,%s): %s gives %r, eager reference gives %r; site %r; select %r ignore %r' % (
                            c, p0, base, cur_mode, ga, na, site, case['select'], case['ignore']))
            if bool(got_h) != bool(want_h):
                out.bad('mode-disagreement:has_location:%s:%s' % (cur_mode, 'absent-contig' if absent_contig else kind),
                        'query (%s,%d): %s gives %r, eager reference gives %r; site %r' % (c, p0, cur_mode, got_h, want_h, site))
            # ---- the reference itself against the VCF text
            if kind == 'absent' or kind in ('uninformative', 'ignored'):
                if na is not None:
                    out.bad('reference-vs-vcf:answer-at-%s-site' % kind, 'query (%s,%d,%s) -> %r; site %r; ignore %r' % (c, p0, base, na, site, case['ignore']))
            elif kind in ('clean', 'missing'):
                exp = site['carriers'].get(base)
                if (na or None) != (exp or None):
                    out.bad('reference-vs-vcf:%s-site-wrong-samples' % kind, 'query (%s,%d,%s) -> %r expected %r; select %r' % (c, p0, base, na, exp, case['select']))
            else:
                exp = site['carriers'].get(base, set())
                if na and not na <= exp:
                    out.bad('reference-vs-vcf:sample-without-the-base', 'query (%s,%d,%s) -> %r but only %r carry it' % (c, p0, base, na, exp))
        at_mod.gzip = real_gzip
        kinds = {}
        for (c, p), s in model.items():
            if s['kind'] == 'clean':
                kinds.setdefault(c, 0)
                kinds[c] += 1
        out.nontrivial = len(kinds) >= 2 and returned_to_evicted and cache_reader
        if returned_to_evicted:
            out.label('returned to an evicted contig')
        if cache_reader:
            out.label('cache read after write')
    finally:
        try:
            import singlecellmultiomics.alleleTools.alleleTools as _m
            import gzip as _g
            _m.gzip = _g
        except Exception:
            pass
        shutil.rmtree(d, ignore_errors=True)
    seen = {}
    for s, m in out.violations:
        seen.setdefault(s, m)
    out.violations = list(seen.items())
    return out


def parts(tier):
    t = tier == 'thorough'
    return [Part('histories', eval_case, strategy=strategy, examples=80000 if t else 2000)]
