"""C19 - per-cell file splitting loses no record under handle limits and open failures."""
import os
import gzip
import errno
import shutil
import builtins
from hypothesis import strategies as st
from ..core import Part, Outcome, scratch_dir

ID = 'C19'
LEVEL = 'fault_enumeration'
NONTRIVIAL_FLOOR = 0.2
RULE = ('Hypothesis-generated write histories (one list value: up to 400 writes over 1..200 target files, gzip or plain '
        'mode, maxHandles 1..40, pruneEvery 1..50, explicit close() calls in between; optionally files of an earlier run '
        'already present at up to 4 target paths, and the output directory spelled with // , /./ or /sub/../) together with a fault plan: '
        'descriptor limit k>=1 (EMFILE whenever k handles are live), transient failure of the n-th open call, permanent '
        'failure of one path. open/gzip.open inside the handlelimiter module are replaced by counting wrappers around '
        'the real functions. Model: path -> concatenated payloads of the writes that returned. After the final close() '
        'every file must decompress to exactly its model content, no handle may be live, and a write may raise only '
        'if its last failed open attempt happened while no other handle was live. Part fastqhandle: the same through '
        'FastqHandle(single_cell=True). Non-trivial: an injected failure while >=2 handles were live followed by a '
        'later write to a path that had been closed (append-mode reopen). Part rlimit: write histories in a child process whose RLIMIT_NOFILE is lowered to (open descriptors + 1..30), with maxHandles above that limit: the operating system makes open() fail (non-trivial: more targets than spare descriptors). Part bamsplit: the multi-pass split_bam_by_tag loop of bamSplitByTag.py for max_handles 1..n on small BAMs: the output files must partition the tagged records in input order (non-trivial: >=2 passes).')
ASSUMPTIONS = ['faults occur at open() calls only (not at write/close)', 'payloads are text; gzip output is read back with the gzip module (multi-member)']


class Faults:
    def __init__(self, plan):
        self.limit = plan.get('limit')              # EMFILE when this many handles are live
        self.transient = set(plan.get('transient', []))   # indices of open calls that fail once
        self.permanent = plan.get('permanent')      # basename that can never be opened
        self.live = 0
        self.calls = 0
        self.injected = 0
        self.injected_with_two_live = 0
        self.last_fail_live_others = None

    def before_open(self, path):
        i = self.calls
        self.calls += 1
        why = None
        if self.permanent is not None and os.path.basename(path) == self.permanent:
            why = errno.EACCES
        elif i in self.transient:
            why = errno.EIO
        elif self.limit is not None and self.live >= self.limit:
            why = errno.EMFILE
        if why is not None:
            self.injected += 1
            if self.live >= 2:
                self.injected_with_two_live += 1
            self.last_fail_live_others = self.live
            raise OSError(why, os.strerror(why), path)


class Tracked:
    def __init__(self, h, faults):
        self._h = h
        self._f = faults
        self._open = True
        faults.live += 1

    def write(self, x):
        return self._h.write(x)

    def close(self):
        if self._open:
            self._open = False
            self._f.live -= 1
        return self._h.close()

    def __getattr__(self, a):
        return getattr(self._h, a)


class FakeGzip:
    def __init__(self, faults):
        self.faults = faults

    def open(self, path, mode='rb', compresslevel=9, *a, **kw):
        self.faults.before_open(path)
        return Tracked(gzip.open(path, mode, compresslevel, *a, **kw), self.faults)

    def __getattr__(self, a):
        return getattr(gzip, a)


def history_strategy(max_targets):
    @st.composite
    def case(draw):
        nt = draw(st.sampled_from([1, 2, 3, 5, 8, 20, 60, max_targets]))
        n = draw(st.integers(1, 400 if nt > 20 else 120))
        # writes favour a working set so that pruned / closed files are written again
        ops = []
        for i in range(n):
            r = draw(st.integers(0, 19))
            if r == 0:
                ops.append(['close'])
            else:
                t = draw(st.integers(0, nt - 1)) if r < 12 else draw(st.integers(0, min(nt, 4) - 1))
                ops.append(['w', t, draw(st.sampled_from(['a', 'bc', 'record\n', 'x' * 40])) + str(i)])
        kind = draw(st.sampled_from(['none', 'limit', 'limit', 'transient', 'permanent', 'mixed']))
        plan = {}
        if kind in ('limit', 'mixed'):
            plan['limit'] = draw(st.integers(1, 12))
        if kind in ('transient', 'mixed'):
            plan['transient'] = draw(st.lists(st.integers(0, n), min_size=1, max_size=6, unique=True))
        if kind in ('permanent',):
            plan['permanent'] = draw(st.integers(0, nt - 1))
        # files of an earlier run already present at some target paths; the spelling of the output directory in the paths
        stale = draw(st.lists(st.integers(0, nt - 1), max_size=4, unique=True)) if draw(st.booleans()) else []
        return {'ops': ops, 'gz': draw(st.booleans()), 'maxHandles': draw(st.integers(1, 40)),
                'pruneEvery': draw(st.integers(1, 50)), 'plan': plan, 'kind': kind, 'stale': stale,
                'sep': draw(st.sampled_from(['/', '/', '//', '/./', '/sub/../']))}
    return case()


def read_back(path, gz):
    if not os.path.exists(path):
        return None
    if gz:
        with gzip.open(path, 'rt') as f:
            return f.read()
    with open(path) as f:
        return f.read()


def eval_limiter(case, through_fastq=False):
    import singlecellmultiomics.pyutils.handlelimiter as hl
    out = Outcome()
    d = os.path.join(scratch_dir(), 'c19_%d' % os.getpid())
    shutil.rmtree(d, ignore_errors=True)
    os.makedirs(d)
    plan = dict(case['plan'])
    gz = case['gz'] or through_fastq

    sep = case.get('sep', '/')
    if 'sub' in sep:
        os.makedirs(os.path.join(d, 'sub'))

    def tpath(t, mate=None):
        if through_fastq:
            # two demultiplexing methods share one handle (demux.py with several strategies): cell index t//2 of method t%2
            return d + sep + 'lib.%d.%s.%s.fastq.gz' % (t // 2, ('MXS', 'NLA')[t % 2], mate)
        return d + sep + 'cell%d.%s' % (t, 'gz' if gz else 'txt')
    for t in case.get('stale', []):
        for mate in (('R1', 'R2') if through_fastq else (None,)):
            with (gzip.open(tpath(t, mate), 'wt') if gz else builtins.open(tpath(t, mate), 'w')) as f:
                f.write('@STALE record of an earlier run\n')
    if plan.get('permanent') is not None:
        plan['permanent'] = os.path.basename(tpath(plan['permanent'], 'R1'))
    faults = Faults(plan)
    saved_gzip = hl.gzip
    had_open = 'open' in hl.__dict__

    def fake_open(path, mode='r', *a, **kw):
        faults.before_open(path)
        return Tracked(builtins.open(path, mode, *a, **kw), faults)
    hl.gzip = FakeGzip(faults)
    hl.open = fake_open
    model = {}
    closed_paths = set()
    reopen_after_fault = False
    fault_seen_2live = False
    try:
        if through_fastq:
            from singlecellmultiomics.fastqProcessing.fastqHandle import FastqHandle
            w = FastqHandle(d + sep + 'lib', pairedEnd=True, single_cell=True, maxHandles=case['maxHandles'])
            w.handles.pruneEvery = case['pruneEvery']
            limiter = w.handles
        else:
            w = limiter = hl.HandleLimiter(maxHandles=case['maxHandles'], pruneEvery=case['pruneEvery'])

        class Rec:
            def __init__(self, t, payload):
                self.tags = {'bi': t // 2, 'MX': ('MXS', 'NLA')[t % 2]}
                self.payload = payload

            def __str__(self):
                return self.payload
        for op in case['ops']:
            if op[0] == 'close':
                import io, contextlib
                with contextlib.redirect_stdout(io.StringIO()):
                    w.close()
                closed_paths |= set(model)
                if faults.live != 0:
                    out.bad('handle-left-open-after-close', '%d handles live after close()' % faults.live)
                continue
            _, t, payload = op
            before_inj = faults.injected
            before_2 = faults.injected_with_two_live
            open_before = set(limiter.openHandles)
            targets = [(tpath(t, 'R1'), payload + '/1\n'), (tpath(t, 'R2'), payload + '/2\n')] if through_fastq else [(tpath(t), payload)]
            try:
                import io, contextlib
                with contextlib.redirect_stdout(io.StringIO()):
                    if through_fastq:
                        w.write([Rec(t, targets[0][1]), Rec(t, targets[1][1])])
                    else:
                        w.write(targets[0][0], payload, method=1 if gz else 0)
                for p, pl in targets:
                    model[p] = model.get(p, '') + pl
                    if p in closed_paths and faults.injected_with_two_live > 0:
                        reopen_after_fault = True
            except Exception as e:
                # legitimate only if the last failed open happened with no other handle live
                if through_fastq:
                    # first mate may have been written before the second raised
                    p0 = targets[0][0]
                    if p0 in limiter.openHandles or True:
                        pass
                legit = isinstance(e, OSError) and faults.injected > before_inj and faults.last_fail_live_others == 0
                if not legit:
                    out.bad('write-raised-although-openable:%s' % type(e).__name__,
                            'write to %s raised %r; faults injected during this write: %d, other handles live at the last failed open: %r; plan %r' % (
                                os.path.basename(targets[0][0]), e, faults.injected - before_inj, faults.last_fail_live_others, case['plan']))
                if through_fastq:
                    # what did reach the disk for this pair is unknown to the model: record by reading back later
                    model['__unknown__'] = model.get('__unknown__', '') + targets[0][0] + '|'
            if faults.injected_with_two_live > before_2:
                fault_seen_2live = True
                closed_paths |= (open_before - set(limiter.openHandles))
            # paths no longer open (pruned / closed by the failure path) count as closed
            closed_paths |= {p for p in model if p not in limiter.openHandles and p != '__unknown__'}
        import io, contextlib
        with contextlib.redirect_stdout(io.StringIO()):
            w.close()
        if faults.live != 0:
            out.bad('handle-left-open-after-close', '%d handles live after the final close()' % faults.live)
        unknown = set((model.pop('__unknown__', '') or '').split('|'))
        for p, content in sorted(model.items()):
            if p in unknown:
                continue
            try:
                got = read_back(p, gz)
            except Exception as e:
                out.bad('file-unreadable:%s' % type(e).__name__, '%s: %r' % (os.path.basename(p), e))
                continue
            if got != content:
                if got is None:
                    kind = 'file-missing'
                elif content.endswith(got) and got != content:
                    kind = 'earlier-records-lost (truncated on reopen)'
                elif content.startswith(got):
                    kind = 'later-records-lost'
                elif 'STALE' in got:
                    kind = 'content-of-an-earlier-run-kept'
                elif sorted(got) == sorted(content):
                    kind = 'records-reordered'
                else:
                    kind = 'content-differs'
                out.bad('content:%s' % kind, '%s: expected %d chars, file has %s; settings maxHandles=%d pruneEvery=%d plan %r' % (
                    os.path.basename(p), len(content), 'nothing' if got is None else '%d chars' % len(got), case['maxHandles'], case['pruneEvery'], case['plan']))
                break
    except Exception as e:
        import traceback
        out.bad('harness-or-close-exception:%s' % type(e).__name__, traceback.format_exc()[-600:])
    finally:
        hl.gzip = saved_gzip
        if had_open:
            pass
        else:
            del hl.open
        shutil.rmtree(d, ignore_errors=True)
    seen = {}
    for s, m in out.violations:
        seen.setdefault(s, m)
    out.violations = list(seen.items())
    out.nontrivial = fault_seen_2live and reopen_after_fault
    out.label('faults=%s' % case['kind'])
    if case.get('stale'):
        out.label('stale files present')
    if sep != '/':
        out.label('non-normalised path spelling')
    if fault_seen_2live:
        out.label('fault with >=2 live handles')
    return out


def bamsplit_strategy():
    @st.composite
    def case(draw):
        nv = draw(st.integers(1, 12))
        values = ['cell%d' % i for i in range(nv)]
        if draw(st.booleans()) and nv > 2:
            values[1] = 'lib A/7'      # needs cleaning to become a file name
        n = draw(st.integers(1, 60))
        recs = []
        for i in range(n):
            v = draw(st.integers(-1, nv - 1))
            recs.append({'name': 'r%d' % i, 'flag': 0, 'tid': 0, 'pos': draw(st.integers(0, 900)), 'mapq': 60, 'cigar': '20M',
                         'tags': ({'SM': values[v]} if v >= 0 else {})})
        return {'records': recs, 'values': values, 'max_handles': draw(st.integers(1, nv + 1)), 'tag': 'SM'}
    return case()


def eval_bamsplit(case):
    """the multi-pass loop of bamSplitByTag.py's main: outputs must partition the tagged records, in order"""
    import io
    import contextlib
    import pysam
    import singlecellmultiomics.bamProcessing.bamSplitByTag as bs
    from singlecellmultiomics.utils.path import get_valid_filename
    from ..common.bamsim import write_bam
    from ..common.tagrun import DetPool
    out = Outcome()
    d = os.path.join(scratch_dir(), 'c19b_%d' % os.getpid())
    shutil.rmtree(d, ignore_errors=True)
    os.makedirs(os.path.join(d, 'out'))
    saved = bs.Pool
    bs.Pool = DetPool
    try:
        bam = os.path.join(d, 'in.bam')
        write_bam(bam, [('chr1', 1000)], case['records'])
        prefix = os.path.join(d, 'out') + '/'
        skip = set()
        waiting = set([0])
        iterations = 0
        try:
            with contextlib.redirect_stdout(io.StringIO()):
                while len(waiting) > 0 and iterations < 40:
                    done, waiting = bs.split_bam_by_tag(bam, tag=case['tag'], output_prefix=prefix, head=None,
                                                        max_handles=case['max_handles'], skip=skip)
                    skip.update(done)
                    iterations += 1
        except Exception as e:
            return out.bad('bamsplit:exception:%s' % type(e).__name__, repr(e))
        if iterations >= 40:
            out.bad('bamsplit:loop-does-not-terminate', 'max_handles %d values %d' % (case['max_handles'], len(case['values'])))
        with pysam.AlignmentFile(bam) as f:
            expected = {}
            for r in f:
                if r.has_tag(case['tag']):
                    expected.setdefault(get_valid_filename(str(r.get_tag(case['tag']))), []).append(r.query_name)
        got = {}
        for fn in os.listdir(os.path.join(d, 'out')):
            if fn.endswith('.bam'):
                with pysam.AlignmentFile(os.path.join(d, 'out', fn)) as f:
                    got[fn[:-4]] = [r.query_name for r in f]
        if got != expected:
            k = sorted(set(got) | set(expected), key=str)
            bad = [x for x in k if got.get(x) != expected.get(x)][0]
            g, e = got.get(bad), expected.get(bad)
            kind = 'file-missing' if g is None else ('unexpected-file' if e is None else ('records-lost' if len(g) < len(e) else ('records-duplicated' if len(g) > len(e) else 'order')))
            out.bad('bamsplit:%s' % kind, 'value %r: file has %r expected %r; max_handles %d, %d passes' % (bad, g, e, case['max_handles'], iterations))
        out.nontrivial = iterations >= 2 and len(expected) >= 2
        out.label('passes:%d' % iterations)
    finally:
        bs.Pool = saved
        shutil.rmtree(d, ignore_errors=True)
    return out


RLIMIT_CHILD = r'''
import sys, json, os, resource, io, contextlib
case = json.load(sys.stdin)
from singlecellmultiomics.pyutils.handlelimiter import HandleLimiter
base = len(os.listdir('/proc/self/fd'))
soft, hard = resource.getrlimit(resource.RLIMIT_NOFILE)
resource.setrlimit(resource.RLIMIT_NOFILE, (base + case['extra_fds'], hard))
w = HandleLimiter(maxHandles=case['maxHandles'], pruneEvery=case['pruneEvery'])
done = 0
err = None
buf = io.StringIO()
try:
    with contextlib.redirect_stdout(buf):
        for t, payload in case['writes']:
            w.write(os.path.join(case['dir'], 'cell%d.%s' % (t, 'gz' if case['gz'] else 'txt')), payload, method=1 if case['gz'] else 0)
            done += 1
        w.close()
except BaseException as e:
    err = repr(e)
resource.setrlimit(resource.RLIMIT_NOFILE, (soft, hard))
sys.stdout.write(json.dumps({'done': done, 'err': err}))
'''


def rlimit_strategy():
    @st.composite
    def case(draw):
        nt = draw(st.sampled_from([8, 20, 40, 80, 150]))
        n = draw(st.integers(nt, 500))
        writes = []
        for i in range(n):
            t = i if i < nt and draw(st.booleans()) else draw(st.integers(0, nt - 1))
            writes.append([t, 'rec%d\n' % i])
        return {'writes': writes, 'gz': draw(st.booleans()), 'extra_fds': draw(st.sampled_from([1, 2, 3, 5, 10, 30])),
                'maxHandles': draw(st.sampled_from([200, 200, 1000, 4, 30])), 'pruneEvery': draw(st.sampled_from([10000, 10000, 50, 7]))}
    return case()


def eval_rlimit(case):
    """the same model check under a REAL descriptor limit (RLIMIT_NOFILE lowered in a child process): the operating
    system, not the harness, makes open() fail with EMFILE"""
    import sys
    import json
    import subprocess
    out = Outcome()
    d = os.path.join(scratch_dir(), 'c19r_%d' % os.getpid())
    shutil.rmtree(d, ignore_errors=True)
    os.makedirs(d)
    try:
        r = subprocess.run([sys.executable, '-c', RLIMIT_CHILD], input=json.dumps(dict(case, dir=d)).encode(), stdout=subprocess.PIPE,
                           stderr=subprocess.PIPE, timeout=300)
        try:
            res = json.loads(r.stdout.decode() or '{}')
        except ValueError:
            res = {}
        if r.returncode != 0 or 'done' not in res:
            return out.bad('rlimit:child-died', 'exit %d: %s' % (r.returncode, r.stderr.decode('utf8', 'replace')[-300:]))
        if res['err'] is not None:
            # with at least one spare descriptor a file can always be opened once all others are closed
            out.bad('rlimit:write-raised-although-openable', '%s after %d of %d writes (spare descriptors %d)' % (res['err'], res['done'], len(case['writes']), case['extra_fds']))
        model = {}
        for t, payload in case['writes'][:res['done']]:
            model[t] = model.get(t, '') + payload
        for t, content in sorted(model.items()):
            got = read_back(os.path.join(d, 'cell%d.%s' % (t, 'gz' if case['gz'] else 'txt')), case['gz'])
            if got != content:
                kind = 'file-missing' if got is None else ('earlier-records-lost (truncated on reopen)' if content.endswith(got) else (
                    'later-records-lost' if content.startswith(got) else 'content-differs'))
                out.bad('rlimit:content:%s' % kind, 'cell%d: expected %d chars, file has %s; spare descriptors %d maxHandles %d' % (
                    t, len(content), 'nothing' if got is None else '%d chars' % len(got), case['extra_fds'], case['maxHandles']))
                break
        targets = len({t for t, _ in case['writes']})
        out.nontrivial = targets > case['extra_fds'] and case['maxHandles'] > case['extra_fds']
        out.label('real RLIMIT_NOFILE')
    except subprocess.TimeoutExpired:
        out.label('rlimit child timed out (inconclusive)')
    finally:
        shutil.rmtree(d, ignore_errors=True)
    return out


def parts(tier):
    t = tier == 'thorough'
    return [
        Part('limiter', eval_limiter, strategy=lambda: history_strategy(200), examples=120000 if t else 3000),
        Part('fastqhandle', lambda c: eval_limiter(c, through_fastq=True), strategy=lambda: history_strategy(100), examples=40000 if t else 1000),
        Part('bamsplit', eval_bamsplit, strategy=bamsplit_strategy, examples=12000 if t else 300),
        Part('rlimit', eval_rlimit, strategy=rlimit_strategy, examples=4000 if t else 96),
    ]
