"""C03 - barcode correction assigns the unique nearest whitelisted barcode or nothing."""
import os
import gzip
import glob
import itertools
import shutil
from hypothesis import strategies as st
from ..core import Part, Outcome, scratch_dir

ID = 'C03'
LEVEL = 'exploration'
NONTRIVIAL_FLOOR = 0.3
RULE = ('part small: Hypothesis-generated whitelist FILES (barcode length 2..5 quick / 2..6 thorough, 1..12 barcodes '
        'built around near-duplicates, N-containing entries, one-column / index-first / barcode-first, plain or gzip, '
        'eager or lazily loaded, 1..2 aliases per directory, k in 0..2); for each whitelist ALL 5^L observed strings '
        'over ACGTN are queried (exhaustive per whitelist) and compared with a brute-force nearest-neighbour search. '
        'part shipped: the shipped whitelists: all members, all 1-mismatch neighbours of a drawn subset, drawn '
        '2-mismatch neighbours and random strings. Non-trivial: the whitelist contains two entries within distance 2k '
        '(so some query is tied or competes), or (shipped) a tied / corrected query occurred.')
ASSUMPTIONS = ['barcodes of one file are unique and of one length', 'index columns are not pure ACGTNX strings',
               'Hamming distance is position-wise with N an ordinary letter (the expansion alphabet is ACTGN)']

ALPHA = 'ACGTN'


def hd(a, b):
    return sum(x != y for x, y in zip(a, b))


def nearest(query, wl, k):
    """wl: list of (barcode, index). Returns (index, barcode, d) or (None, None, None)."""
    best = None
    bestd = None
    tie = False
    for bc, idx in wl:
        d = hd(query, bc)
        if bestd is None or d < bestd:
            best, bestd, tie = (idx, bc, d), d, False
        elif d == bestd:
            tie = True
    if best is None or bestd > k or tie:
        return (None, None, None)
    return best


def write_whitelist(path, wl, fmt, gz, trailing_newline=True):
    lines = []
    for bc, idx in wl:
        if fmt == 'one':
            lines.append(bc)
        elif fmt == 'index_first_tab':
            lines.append('%s\t%s' % (idx, bc))
        elif fmt == 'index_first_space':
            lines.append('%s %s' % (idx, bc))
        else:
            lines.append('%s\t%s' % (bc, idx))
    txt = '\n'.join(lines) + ('\n' if trailing_newline else '')
    if gz:
        with gzip.open(path, 'wt') as f:
            f.write(txt)
    else:
        with open(path, 'w') as f:
            f.write(txt)


def small_strategy(maxL):
    def whitelist(draw, L):
        n = draw(st.integers(1, 12))
        bcs = []
        base_alpha = st.sampled_from('ACGT')
        while len(bcs) < n:
            if bcs and draw(st.integers(0, 2)) > 0:
                # near duplicate of an existing entry: distance 1..3
                src = list(draw(st.sampled_from(bcs)))
                for _ in range(draw(st.integers(1, min(3, L)))):
                    p = draw(st.integers(0, L - 1))
                    src[p] = draw(st.sampled_from(ALPHA if draw(st.integers(0, 5)) == 0 else 'ACGT'))
                cand = ''.join(src)
            else:
                cand = ''.join(draw(base_alpha) for _ in range(L))
            if cand not in bcs:
                bcs.append(cand)
            elif len(bcs) >= 5 ** L - 1:
                break
            else:
                n -= 1   # construction, not rejection: give up on this slot
        return bcs

    @st.composite
    def case(draw):
        L = draw(st.integers(2, maxL))
        k = draw(st.sampled_from([0, 1, 1, 2, 2]))
        aliases = []
        for ai in range(draw(st.integers(1, 2))):
            bcs = whitelist(draw, L)
            fmt = draw(st.sampled_from(['one', 'index_first_tab', 'index_first_space', 'barcode_first']))
            idx_kind = draw(st.sampled_from(['int', 'str', 'shuffled_int', 'zero_based', 'wells']))
            wl = []
            perm = draw(st.permutations(list(range(len(bcs)))))
            for i, bc in enumerate(bcs):
                if fmt == 'one':
                    idx = i + 1
                elif idx_kind == 'int':
                    idx = i + 1
                elif idx_kind == 'shuffled_int':
                    idx = perm[i] + 100
                elif idx_kind == 'zero_based':
                    idx = perm[i]             # one cell has index 0
                elif idx_kind == 'wells':
                    # cell names that begin with a base letter (plate wells A1, C7, G12; N701 style index names)
                    idx = '%s%d' % ('ACGTN'[perm[i] % 5], perm[i] + 1)
                else:
                    idx = 'w%d_%d' % (ai, perm[i])
                wl.append([bc, idx])
            # the alias is the file name without its extension; inner dots are part of it (DamID2_384_CelSeq2.barcodes.tsv)
            aname = draw(st.sampled_from(['wl%d', 'wl%d', 'wl%d.v2', 'plate%d.barcodes'])) % ai
            aliases.append({'alias': aname, 'wl': wl, 'fmt': fmt, 'gz': draw(st.booleans()), 'newline': draw(st.sampled_from([True, True, False]))})
        if len(aliases) == 2 and draw(st.integers(0, 2)) == 0:
            # second whitelist with the SAME barcode set but another barcode -> index mapping and another file format
            w0 = aliases[0]['wl']
            perm2 = draw(st.permutations(list(range(len(w0)))))
            aliases[1]['wl'] = [[w0[i][0], 'other%d' % perm2[i]] for i in range(len(w0))]
            aliases[1]['fmt'] = draw(st.sampled_from(['index_first_tab', 'barcode_first']))
        lazy = draw(st.sampled_from([None, None, '*', 'list', 'getitem', 'manual']))
        # the very first lookup on an alias (the one that triggers a lazy load) is drawn: all 5^L follow
        first = ''.join(draw(st.lists(st.sampled_from(ALPHA), min_size=L, max_size=L)))
        if draw(st.booleans()):
            b0 = list(aliases[0]['wl'][draw(st.integers(0, len(aliases[0]['wl']) - 1))][0])
            b0[draw(st.integers(0, L - 1))] = draw(st.sampled_from(ALPHA))
            first = ''.join(b0)
        return {'L': L, 'k': k, 'aliases': aliases, 'lazy': lazy, 'first': first}
    return case()


def make_parser(directory, k, lazy, aliases):
    from singlecellmultiomics.barcodeFileParser.barcodeFileParser import BarcodeParser
    lz = lazy
    if lazy == 'list':
        lz = [aliases[0]]
    if lazy == 'getitem':
        lz = '*'
    return BarcodeParser(barcodeDirectory=directory, hammingDistanceExpansion=k, lazyLoad=lz)


def eval_small(case):
    out = Outcome()
    d = os.path.join(scratch_dir(), 'bc_%d' % os.getpid())
    shutil.rmtree(d, ignore_errors=True)
    os.makedirs(d)
    try:
        for a in case['aliases']:
            write_whitelist(os.path.join(d, a['alias'] + '.bc' + ('.gz' if a['gz'] else '')), a['wl'], a['fmt'], a['gz'], a.get('newline', True))
        try:
            if case['lazy'] == 'manual':
                # the demux.py -si / -hdi path: an empty parser, barcodes added by hand, explicit expand(k, alias)
                from singlecellmultiomics.barcodeFileParser.barcodeFileParser import BarcodeParser
                empty = os.path.join(d, 'empty_dir')
                os.makedirs(empty, exist_ok=True)
                parser = BarcodeParser(barcodeDirectory=empty)
                for a in case['aliases']:
                    for bc, idx in a['wl']:
                        parser.addBarcode(index=idx, barcodeFileAlias=a['alias'], barcode=bc, hammingDistance=0, originBarcode=None)
                    parser.expand(case['k'], alias=a['alias'])
            else:
                parser = make_parser(d, case['k'], case['lazy'], [a['alias'] for a in case['aliases']])
            if case['lazy'] == 'getitem':
                # scCHIC style access of the mapping before the first lookup
                _ = parser[case['aliases'][-1]['alias']]
        except Exception as e:
            return out.bad('exception-constructing:%s' % type(e).__name__, repr(e))
        L, k = case['L'], case['k']
        close = False
        for a in case['aliases']:
            wl = [(bc, idx) for bc, idx in a['wl']]
            for (b1, _), (b2, _) in itertools.combinations(wl, 2):
                if hd(b1, b2) <= 2 * k:
                    close = True
            for q in itertools.chain([case.get('first') or 'A' * L], (''.join(t) for t in itertools.product(ALPHA, repeat=L))):
                exp = nearest(q, wl, k)
                try:
                    got = parser.getIndexCorrectedBarcodeAndHammingDistance(q, a['alias'])
                except Exception as e:
                    out.bad('exception-lookup:%s' % type(e).__name__, 'query %s alias %s: %r' % (q, a['alias'], e))
                    return out
                got = tuple(got)
                if got != tuple(exp):
                    out.bad(classify(q, got, exp, wl, k), 'k=%d lazy=%r fmt=%s whitelist=%r query=%s got=%r expected=%r' % (
                        k, case['lazy'], a['fmt'], wl, q, got, exp))
                    return out
        out.nontrivial = close and k > 0
        out.label('k=%d' % k, 'lazy=%s' % case['lazy'])
        out.label('queries:%d' % (len(case['aliases']) * 5 ** L))
    finally:
        shutil.rmtree(d, ignore_errors=True)
    return out


def classify(q, got, exp, wl, k):
    if exp[0] is None and got[0] is not None:
        ds = sorted(hd(q, bc) for bc, _ in wl)
        if len(ds) > 1 and ds[0] == ds[1]:
            return 'tie-resolved-arbitrarily'
        if ds[0] > k:
            return 'assigned-beyond-k'
        return 'assigned-unexpectedly'
    if exp[0] is not None and got[0] is None:
        return 'member-not-found' if exp[2] == 0 else 'unique-nearest-not-assigned'
    if exp[1] != got[1]:
        return 'wrong-barcode'
    if exp[0] != got[0]:
        return 'wrong-index'
    return 'wrong-distance'


# ----------------------------------------------------------------- shipped whitelists

def shipped_dir():
    import singlecellmultiomics.modularDemultiplexer as md
    return os.path.join(os.path.dirname(md.__file__), 'barcodes')


def read_shipped(path):
    """Independent reader of a shipped whitelist: list of barcodes in file order (index not checked for str cols)."""
    op = gzip.open if path.endswith('.gz') else open
    rows = []
    with op(path, 'rt') as f:
        for i, line in enumerate(f):
            parts = line.strip().split()
            if not parts:
                continue
            rows.append(parts)
    return rows


def shipped_aliases():
    res = []
    for p in sorted(glob.glob(shipped_dir() + '/*')):
        alias = os.path.basename(p).replace('.gz', '').replace('.bc', '')
        alias = os.path.splitext(os.path.basename(p))[0].replace('.gz', '').replace('.bc', '')
        rows = read_shipped(p)
        if not rows:
            continue
        bcs = []
        ok = True
        for r in rows:
            cand = [x for x in r if all(c in 'ACGTN' for c in x)]
            if len(cand) != 1:
                ok = False
                break
            other = [x for x in r if x is not cand[0]]
            idx = other[0] if other else len(bcs) + 1
            try:
                idx = int(idx)
            except ValueError:
                pass
            bcs.append((cand[0], idx))
        if not ok:
            continue
        if len({b for b, _ in bcs}) != len(bcs) or len({len(b) for b, _ in bcs}) != 1:
            continue   # precondition: unique barcodes of one length
        res.append((alias, bcs))
    return res


def shipped_strategy():
    aliases = shipped_aliases()
    names = [a for a, _ in aliases]
    lens = {a: len(b[0][0]) for a, b in aliases}

    @st.composite
    def case(draw):
        alias = draw(st.sampled_from(names))
        k = draw(st.sampled_from([0, 1, 2]))
        if lens[alias] > 10 and k == 2:
            k = 1
        return {'alias': alias, 'k': k, 'lazy': draw(st.sampled_from([None, '*'])),
                'subset_seed': draw(st.lists(st.integers(0, 10 ** 6), min_size=40, max_size=40)),
                'muts': draw(st.lists(st.tuples(st.integers(0, 10 ** 6), st.integers(0, 30), st.integers(0, 30),
                                                st.sampled_from(ALPHA), st.sampled_from(ALPHA)), min_size=60, max_size=60)),
                'randoms': draw(st.lists(st.text(alphabet=ALPHA, min_size=lens[alias], max_size=lens[alias]), min_size=20, max_size=20))}
    return case()


_PARSERS = {}


def eval_shipped(case):
    from singlecellmultiomics.barcodeFileParser.barcodeFileParser import BarcodeParser
    out = Outcome()
    wl = dict(shipped_aliases())[case['alias']]
    L = len(wl[0][0])
    k = case['k']
    key = (k, case['lazy'], case['alias'] if case['lazy'] is None else '*')
    if key not in _PARSERS:
        if case['lazy'] is None:
            # eager load of one alias: copy that file into a private directory
            d = os.path.join(scratch_dir(), 'ship_%d_%s_%d' % (os.getpid(), case['alias'], k))
            os.makedirs(d, exist_ok=True)
            for p in glob.glob(shipped_dir() + '/*'):
                a = os.path.splitext(os.path.basename(p))[0].replace('.gz', '').replace('.bc', '')
                if a == case['alias']:
                    shutil.copy(p, d)
            _PARSERS[key] = BarcodeParser(barcodeDirectory=d, hammingDistanceExpansion=k)
        else:
            _PARSERS[key] = BarcodeParser(barcodeDirectory=shipped_dir(), hammingDistanceExpansion=k, lazyLoad='*')
    parser = _PARSERS[key]
    queries = [bc for bc, _ in wl]
    for s in case['subset_seed']:
        bc = wl[s % len(wl)][0]
        for p in range(L):
            for c in ALPHA:
                if c != bc[p]:
                    queries.append(bc[:p] + c + bc[p + 1:])
    for s, p1, p2, c1, c2 in case['muts']:
        bc = list(wl[s % len(wl)][0])
        bc[p1 % L] = c1
        bc[p2 % L] = c2
        queries.append(''.join(bc))
    queries.extend(case['randoms'])
    interesting = 0
    for q in queries:
        exp = nearest(q, wl, k)
        try:
            got = tuple(parser.getIndexCorrectedBarcodeAndHammingDistance(q, case['alias']))
        except Exception as e:
            return out.bad('shipped:exception:%s' % type(e).__name__, 'alias %s query %s: %r' % (case['alias'], q, e))
        if exp[0] is not None and exp[2] > 0:
            interesting += 1
        # shipped files may use string indices; compare by str
        if (str(got[0]), got[1], got[2]) != (str(exp[0]), exp[1], exp[2]):
            out.bad('shipped:' + classify(q, got, exp, wl, k), 'alias=%s k=%d lazy=%r query=%s got=%r expected=%r' % (
                case['alias'], k, case['lazy'], q, got, exp))
            return out
    out.nontrivial = k > 0 and interesting > 0
    out.label('alias=%s' % case['alias'], 'queries:%d' % len(queries))
    return out


def parts(tier):
    t = tier == 'thorough'
    return [
        Part('small', eval_small, strategy=lambda: small_strategy(6 if t else 5), examples=20000 if t else 320),
        Part('shipped', eval_shipped, strategy=shipped_strategy, examples=6400 if t else 96),
    ]
