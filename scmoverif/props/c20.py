"""C20 - the status marker reports success only for a complete, sorted, indexed output."""
import os
import shutil
import pysam
from hypothesis import strategies as st
from ..core import Part, Outcome, scratch_dir
from ..common import libsim, tagrun
from ..common.bamsim import write_bam
from . import c05

ID = 'C20'
LEVEL = 'fault_enumeration'
NONTRIVIAL_FLOOR = 0.5
RULE = ('Hypothesis-generated small libraries (1..3 contigs, 1..10 molecule specs) x method nla/chic x mode single / '
        '--multiprocess. For every library ALL step boundaries are enumerated as failure points: molecule k of n at '
        'iteration, write_tags and write_pysam, read-group header rewrite, sort, every pysam.index call, each worker job, '
        'merge, temp-folder cleanup; kinds: exception, OSError family (ESTALE / ENOENT / EACCES) inside the tagging steps, KeyboardInterrupt, and os._exit(137) in a forked child (what a kill '
        'at that boundary leaves on disk). After each run <output>.status.txt is compared with the output: success text '
        'only if the BAM exists, reads to EOF, is coordinate sorted, indexed and holds every input record (C05 oracle); a '
        'run that was made to fail must not report success (a swallowed cleanup failure may, if the output is valid). '
        'Additionally samtools sort failing on every attempt (no output / output without EOF block / output of an earlier run on a smaller input still present) and a history: a successful run followed by a run to the same output path that fails before tagging starts (invalid method, -region_start without -region_end). One evaluation = one library with all its failure points; non-trivial: a failure point after the first record '
        'was written and before the pipeline end was exercised (always true when the library yields >=2 molecules).')
ASSUMPTIONS = ['kills are modelled at step boundaries, not inside htslib', 'a dying pool worker makes multiprocessing.Pool wait forever (liveness, not covered): worker failures are exceptions',
               'pysam/htslib trusted']

SUCCESS = 'Reached end. All ok!'


class Injected(Exception):
    pass


def strategy():
    @st.composite
    def case(draw):
        spec = draw(libsim.spec_strategy(max_contigs=3, max_mols=10, extras=draw(st.booleans()), max_cells=2,
                                         contig_classes=('small', 'small', 'large')))
        mode = draw(st.sampled_from(['single', 'multi']))
        # the status file is named after the output file: names ending in letters of 'bam', with dots, with 'bam' inside
        return {'outname': draw(st.sampled_from(['out', 'out', 'run1b', 'sample.a', 'tagged_bam', 'm'])), 'spec': spec, 'run': {'method': spec['method'], 'mode': mode, 'threads': draw(st.integers(1, 3)),
                                      'pool': 'det', 'order': draw(st.lists(st.integers(0, 100), min_size=3, max_size=3)),
                                      'no_rejects': False}}
    return case()


class Counter:
    def __init__(self):
        self.calls = {}


def install(point, kind, counter):
    """Patches one pipeline step. Returns an undo function. point = (name, k)."""
    import singlecellmultiomics.molecule.molecule as mm
    import singlecellmultiomics.molecule.iterator as mi
    import singlecellmultiomics.bamProcessing.bamFunctions as bf
    import singlecellmultiomics.universalBamTagger.bamtagmultiome as tm
    name, k = point

    def fail():
        if kind == 'exception':
            raise Injected('injected failure at %s:%s' % (name, k))
        if kind == 'oserror':
            # what a stale file handle / vanished file / full disk looks like to the pipeline
            import errno
            if k % 3 == 0:
                raise OSError(errno.ESTALE, 'Stale file handle (injected at %s:%s)' % (name, k))
            if k % 3 == 1:
                raise FileNotFoundError(errno.ENOENT, 'No such file or directory (injected at %s:%s)' % (name, k))
            raise PermissionError(errno.EACCES, 'Permission denied (injected at %s:%s)' % (name, k))
        if kind == 'interrupt':
            raise KeyboardInterrupt()
        os._exit(137)

    def wrap(orig, key):
        def w(*a, **kw):
            n = counter.calls.get(key, 0)
            counter.calls[key] = n + 1
            if name == key and k == n:
                fail()
            return orig(*a, **kw)
        return w

    undo = []

    def patch(obj, attr, key):
        orig = getattr(obj, attr)
        setattr(obj, attr, wrap(orig, key))
        undo.append((obj, attr, orig))

    patch(mm.Molecule, 'write_tags', 'tags')
    patch(mm.Molecule, 'write_pysam', 'write')
    patch(bf, 'add_readgroups_to_header', 'readgroups')
    patch(bf, 'sort_and_index', 'sort')
    patch(pysam, 'index', 'index')
    patch(tm, 'run_tagging_tasks', 'job')
    patch(tm, 'merge_bams', 'merge')
    orig_rmtree = tm.shutil.rmtree

    def rmtree(*a, **kw):
        n = counter.calls.get('cleanup', 0)
        counter.calls['cleanup'] = n + 1
        if name == 'cleanup' and k == n:
            fail()
        return orig_rmtree(*a, **kw)
    tm.shutil.rmtree = rmtree
    undo.append((tm.shutil, 'rmtree', orig_rmtree))
    # reading failure: the molecule iterator raises after k molecules
    orig_iter = mi.MoleculeIterator.__iter__

    def it(self):
        for m in orig_iter(self):
            n = counter.calls.get('iter', 0)
            counter.calls['iter'] = n + 1
            if name == 'iter' and k == n:
                fail()
            yield m
    mi.MoleculeIterator.__iter__ = it
    undo.append((mi.MoleculeIterator, '__iter__', orig_iter))

    def restore():
        for obj, attr, orig in reversed(undo):
            setattr(obj, attr, orig)
    return restore


def run_once(case, d, point, kind):
    """Runs the tagger with one injected failure. Returns (raised, status, counter)."""
    spec, run = case['spec'], case['run']
    bam_in = os.path.join(d, 'in.bam')
    bam_out = os.path.join(d, case.get('outname', 'out') + '.bam')
    for p in os.listdir(d):
        if p not in ('in.bam', 'in.bam.bai'):
            q = os.path.join(d, p)
            shutil.rmtree(q, ignore_errors=True) if os.path.isdir(q) else os.remove(q)
    counter = Counter()

    def go():
        restore = install(point, kind, counter)
        try:
            tagrun.run_tagger(bam_in, bam_out, run['method'], multiprocess=run['mode'] == 'multi', threads=run['threads'],
                              pool='det', order=run['order'])
        finally:
            restore()
    raised = None
    import gc
    import time
    import signal
    if kind == 'kill':
        gc.collect()          # close handles (and their htslib threads) leaked by earlier runs before forking
        pid = os.fork()
        if pid == 0:
            gc.disable()      # never finalise objects inherited from the parent in the child
            code = 0
            try:
                go()
            except BaseException:
                code = 3
            os._exit(code)
        t0 = time.time()
        while True:
            done, st_ = os.waitpid(pid, os.WNOHANG)
            if done:
                break
            if time.time() - t0 > 60:
                os.kill(pid, signal.SIGKILL)
                os.waitpid(pid, 0)
                return 'timeout', 'TIMEOUT', counter
            time.sleep(0.005)
        code = os.waitstatus_to_exitcode(st_)
        raised = 'exit:%d' % code if code != 0 else None
    else:
        try:
            go()
        except BaseException as e:
            raised = type(e).__name__
            e = None
    return raised, tagrun.status_text(bam_out), counter


def run_sort_failure(case, d, variant, contigs, records):
    """Every attempt of samtools sort fails (a persistent condition such as a full disk). variant: 'no-output' (sort dies
    before it creates the output), 'partial-output' (the sorted file is written but cut at a BGZF block boundary: its EOF
    block is missing), 'stale-output' (no output, but the output of an earlier run on a SMALLER input is still at the
    output path). Returns (raised, status)."""
    spec, run = case['spec'], case['run']
    bam_in = os.path.join(d, 'in.bam')
    bam_out = os.path.join(d, case.get('outname', 'out') + '.bam')
    for p in os.listdir(d):
        if p not in ('in.bam', 'in.bam.bai'):
            q = os.path.join(d, p)
            shutil.rmtree(q, ignore_errors=True) if os.path.isdir(q) else os.remove(q)
    kw = dict(multiprocess=run['mode'] == 'multi', threads=run['threads'], pool='det', order=run['order'])
    if variant == 'stale-output':
        small = os.path.join(d, 'small.bam')
        write_bam(small, contigs, records[:max(1, len(records) // 3)])
        try:
            tagrun.run_tagger(small, bam_out, run['method'], **kw)
        except BaseException:
            return 'setup-failed', None
    real_sort = pysam.sort
    from pysam.utils import SamtoolsError

    def failing_sort(*args, **kwargs):
        if variant == 'partial-output':
            real_sort(*args, **kwargs)
            target = args[list(args).index('-o') + 1]
            size = os.path.getsize(target)
            if size > 28:
                with open(target, 'r+b') as f:
                    f.truncate(size - 28)       # drop the BGZF EOF block
        raise SamtoolsError('samtools sort: failed to write: No space left on device (injected)')
    pysam.sort = failing_sort
    raised = None
    try:
        tagrun.run_tagger(bam_in, bam_out, run['method'], **kw)
    except BaseException as e:
        raised = type(e).__name__
    finally:
        pysam.sort = real_sort
    return raised, tagrun.status_text(bam_out)


def output_valid(case, d, contigs, records, truth):
    """C05 oracle on d/out.bam; returns list of problems."""
    o = Outcome()
    res = {'in': os.path.join(d, 'in.bam'), 'out': os.path.join(d, case.get('outname', 'out') + '.bam'), 'truth': truth, 'contigs': contigs,
           'records': records, 'status': None}
    c05.compare({'spec': case['spec'], 'run': case['run']}, res, o)
    try:
        with pysam.AlignmentFile(res['out']) as f:
            f.check_index()
    except Exception as e:
        o.bad('no-index', repr(e))
    return o.violations


def eval_case(case):
    out = Outcome()
    spec, run = case['spec'], case['run']
    contigs, records, truth = libsim.realize(spec)
    d = os.path.join(scratch_dir(), 'c20_%d' % os.getpid())
    shutil.rmtree(d, ignore_errors=True)
    os.makedirs(d)
    try:
        write_bam(os.path.join(d, 'in.bam'), contigs, records)
        # dry run: count the step boundaries of this library
        raised, status, counter = run_once(case, d, ('none', -1), 'exception')
        mode = run['mode']
        if raised:
            return out.bad('%s:fault-free-run-raised:%s' % (mode, raised), 'status %r' % status)
        if status != SUCCESS:
            out.bad('%s:fault-free-run-without-success-status' % mode, 'status %r' % status)
        probs = output_valid(case, d, contigs, records, truth)
        if probs:
            out.bad('%s:fault-free-run:%s' % (mode, probs[0][0]), probs[0][1])
            return out
        calls = dict(counter.calls)
        points = []
        for key in ('iter', 'tags', 'write', 'readgroups', 'sort', 'index', 'job', 'merge', 'cleanup'):
            for k in range(calls.get(key, 0)):
                points.append((key, k))
        n_runs = 0
        mid = False
        for point in points:
            for kind in ('exception', 'interrupt', 'kill') + (('oserror',) if point[0] in ('iter', 'tags', 'write', 'readgroups', 'job') else ()):
                raised, status, _ = run_once(case, d, point, kind)
                n_runs += 1
                if status == 'TIMEOUT':
                    out.label('kill run timed out (inconclusive)')
                    continue
                if point[0] not in ('iter', 'tags') or point[1] > 0:
                    mid = True
                where = '%s:%s' % (mode, point[0])
                if status == SUCCESS:
                    probs = output_valid(case, d, contigs, records, truth)
                    if probs:
                        out.bad('%s:success-status-but-%s' % (where, probs[0][0].split(':', 1)[-1]),
                                'failure injected at %r (%s), raised=%r, status %r, output problem: %s' % (point, kind, raised, status, probs[0][1][:300]))
                    elif point[0] != 'cleanup' and raised is not None:
                        # the run visibly failed, yet claims success next to a (by luck) valid file
                        out.bad('%s:success-status-after-failed-run' % where, 'failure at %r (%s) raised %r but status says success' % (point, kind, raised))
                elif status is None:
                    out.bad('%s:no-status-file' % where, 'failure at %r' % (point,))
                if len(out.violations) > 8:
                    break
        # ---- samtools sort fails on every attempt
        for variant in ('no-output', 'partial-output', 'stale-output'):
            raised, status = run_sort_failure(case, d, variant, contigs, records)
            n_runs += 1
            if raised == 'setup-failed':
                continue
            if status == SUCCESS:
                probs = output_valid(case, d, contigs, records, truth)
                out.bad('%s:sort-fails-every-attempt:%s:success-status' % (mode, variant),
                        'all sort attempts failed (raised=%r), status says success; output: %s' % (raised, probs[0][1][:200] if probs else 'valid (of which run?)'))
            elif status is None:
                out.bad('%s:sort-fails-every-attempt:%s:no-status-file' % (mode, variant), 'raised=%r' % raised)
        # ---- history: a successful run followed by a run to the SAME output path that fails before tagging starts
        # (argument mistakes); the status of the first run must not survive
        raised, status, _ = run_once(case, d, ('none', -1), 'exception')
        if status == SUCCESS:
            bam_in, bam_out = os.path.join(d, 'in.bam'), os.path.join(d, case.get('outname', 'out') + '.bam')
            for label, extra in (('bad-method', None), ('region-start-without-end', ['-region_start', '5'])):
                try:
                    if extra is None:
                        tagrun.run_tagger(bam_in, bam_out, 'no_such_method', multiprocess=run['mode'] == 'multi', threads=run['threads'], pool='det')
                    else:
                        tagrun.run_tagger(bam_in, bam_out, run['method'], multiprocess=run['mode'] == 'multi', threads=run['threads'], pool='det', extra=extra)
                    failed = False
                except BaseException:
                    failed = True
                st2 = tagrun.status_text(bam_out)
                n_runs += 1
                if failed and st2 == SUCCESS:
                    probs = output_valid(case, d, contigs, records, truth)
                    if probs:
                        out.bad('%s:second-run:%s:stale-success-status' % (mode, label),
                                'a run that failed before tagging left the success status of the previous run next to: %s' % probs[0][1][:200])
                # restore a successful state for the next sub-case
                raised, status, _ = run_once(case, d, ('none', -1), 'exception')
        seen = {}
        for s, m in out.violations:
            seen.setdefault(s, m)
        out.violations = list(seen.items())
        out.nontrivial = mid and len(points) >= 4
        out.label('mode=%s' % mode, 'failure_runs:%d' % n_runs)
    finally:
        shutil.rmtree(d, ignore_errors=True)
    return out


def parts(tier):
    t = tier == 'thorough'
    return [Part('faults', eval_case, strategy=strategy, examples=1500 if t else 64, shrinkable=True)]
