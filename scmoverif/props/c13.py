"""C13 - molecule consensus is the strict majority call and never reports a tie."""
import itertools
from hypothesis import strategies as st
from ..core import Part, Outcome
from ..common.fragsim import header, mk_read, md_tag, aligned_pairs, ref_len

ID = 'C13'
LEVEL = 'exploration'
NONTRIVIAL_FLOOR = 0.25
RULE = ('Hypothesis-generated molecules of 1..12 fragments on a random 30..120 bp reference: R1 forward or reverse, '
        'optional inward or dove-tailed R2, single-end fragments, read length 5..40, random mismatches and N calls, '
        'qualities from {2,20,30,40,0} so that quality ties between mates and vote ties are frequent, CIGARs with '
        'soft clips / insertions / deletions. Molecule.get_consensus (plain and dove_safe) is compared with a brute-force '
        'vote; metamorphic: all permutations of the insertion order (<=4 fragments; 6 drawn otherwise) and duplication of '
        'every fragment; history: an earlier get_consensus call in either mode on the same molecule object, or a consensus request followed by Molecule.add_molecule of the remaining fragments. Part deep: molecules of 254..520 single-read fragments in which 1 / n-256 / 255..257 / n/2 fragments carry another base (vote counters around 256 and 512). Non-trivial: at least one tied (absent) position and one position where the mates of a '
        'fragment disagree.')
ASSUMPTIONS = ['fragments have an R1 flagged read1 (the implementation asserts it); reads carry correct MD tags (except the one deliberately MD-less mate of an "unusable" fragment, which casts no vote)',
               'all fragments of a molecule share cell, UMI and R1 orientation (what molecule assignment guarantees)']

CONTIG = [('chrS', 1000)]
QUALS = [2, 20, 30, 40, 40, 30, 0]


def strategy():
    @st.composite
    def read(draw, ref, start, ln):
        L = len(ref)
        start = max(0, min(L - 5, start))
        ln = max(3, min(ln, L - start))
        # cigar: mostly plain M, sometimes S/I/D
        kind = draw(st.sampled_from(['M', 'M', 'M', 'S', 'I', 'D']))
        if ln < 8:
            kind = 'M'
        if kind == 'M':
            cig = [('M', ln)]
        elif kind == 'S':
            s = draw(st.integers(1, 3))
            cig = [('S', s), ('M', ln)] if draw(st.booleans()) else [('M', ln), ('S', s)]
        elif kind == 'I':
            a = draw(st.integers(2, ln - 2))
            cig = [('M', a), ('I', draw(st.integers(1, 2))), ('M', ln - a)]
        else:
            a = draw(st.integers(2, ln - 3))
            d = draw(st.integers(1, 2))
            cig = [('M', a), ('D', d), ('M', ln - a - d)] if ln - a - d >= 1 else [('M', ln)]
        seq = []
        r = start
        for op, n in cig:
            if op == 'M':
                for i in range(n):
                    b = ref[r + i]
                    e = draw(st.integers(0, 9))
                    if e == 0:
                        b = draw(st.sampled_from('ACGT'))
                    elif e == 1:
                        b = 'N'
                    seq.append(b)
                r += n
            elif op in 'SI':
                seq.extend(draw(st.sampled_from('ACGT')) for _ in range(n))
            elif op == 'D':
                r += n
        cigar = ''.join('%d%s' % (n, op) for op, n in cig)
        quals = [draw(st.sampled_from(QUALS)) for _ in seq]
        return {'pos': start, 'cigar': cigar, 'seq': ''.join(seq), 'qual': quals}

    @st.composite
    def case(draw):
        L = draw(st.integers(30, 120))
        ref = ''.join(draw(st.lists(st.sampled_from('ACGT'), min_size=L, max_size=L)))
        r1_rev = draw(st.booleans())
        anchor = draw(st.integers(0, L - 10))
        nfrag = draw(st.sampled_from([1, 2, 2, 3, 3, 4, 4, 5, 6, 8, 12]))
        frags = []
        for i in range(nfrag):
            ln1 = draw(st.integers(5, 40))
            s1 = anchor + draw(st.sampled_from([0, 0, 0, 1, -1, 3, draw(st.integers(-10, 10))]))
            if r1_rev:
                s1 = s1 - ln1 + 20
            r1 = draw(read(ref, s1, ln1))
            layout = draw(st.sampled_from(['single', 'inward', 'inward', 'overlap', 'dovetail']))
            r2 = None
            if layout != 'single':
                ln2 = draw(st.integers(5, 40))
                e1 = r1['pos'] + ref_len(r1['cigar'])
                if not r1_rev:
                    if layout == 'inward':
                        s2 = e1 + draw(st.integers(-3, 25))
                    elif layout == 'overlap':
                        s2 = r1['pos'] + draw(st.integers(0, max(0, ref_len(r1['cigar']) - 1)))
                    else:
                        s2 = r1['pos'] - draw(st.integers(1, 8))
                else:
                    if layout == 'inward':
                        s2 = r1['pos'] - ln2 - draw(st.integers(-3, 25))
                    elif layout == 'overlap':
                        s2 = e1 - ln2 - draw(st.integers(0, 10))
                    else:
                        s2 = e1 - ln2 + draw(st.integers(1, 8))
                r2 = draw(read(ref, s2, ln2))
            frags.append({'r1': r1, 'r2': r2})
        # a fragment that cannot be evaluated (a mate without MD tag): it casts no vote, wherever it stands in the molecule
        if nfrag >= 2 and draw(st.integers(0, 5)) == 0:
            frags[draw(st.integers(0, nfrag - 1))]['nomd'] = draw(st.sampled_from(['r1', 'r2']))
        return {'ref': ref, 'r1_rev': r1_rev, 'frags': frags, 'dove_safe': draw(st.sampled_from([False, False, True])),
                'prior': draw(st.sampled_from([None, None, True, False])),
                'merge': draw(st.sampled_from([None, None, None, 1, 2, 3])), 'with_obs': draw(st.booleans()),
                'perm_seeds': draw(st.lists(st.integers(0, 10 ** 6), min_size=6, max_size=6))}
    return case()


def deep_strategy():
    """Very deep molecules (around 256 and 512 fragments): vote counters must not saturate or wrap."""
    @st.composite
    def case(draw):
        L = 40
        ref = ''.join(draw(st.lists(st.sampled_from('ACGT'), min_size=L, max_size=L)))
        n = draw(st.sampled_from([254, 255, 256, 257, 258, 300, 511, 512, 513, 520]))
        ln = draw(st.integers(6, 12))
        start = draw(st.integers(0, L - ln))
        # per position: how many fragments carry an alternative base (0, few, n-256, 255/256/257, half)
        alts = {}
        for p in draw(st.lists(st.integers(0, ln - 1), min_size=1, max_size=4, unique=True)):
            k = draw(st.sampled_from([1, 2, n - 256, n - 255, 255, 256, 257, n // 2, n - 1]))
            if 0 < k < n:
                alts[p] = (k, draw(st.sampled_from('ACGT')))
        frags = []
        for i in range(n):
            seq = list(ref[start:start + ln])
            for p, (k, b) in alts.items():
                if i < k:
                    seq[p] = b if b != seq[p] else 'ACGT'[('ACGT'.index(b) + 1) % 4]
            frags.append({'r1': {'pos': start, 'cigar': '%dM' % ln, 'seq': ''.join(seq), 'qual': [30] * ln}, 'r2': None})
        rot = draw(st.integers(0, n - 1))
        frags = frags[rot:] + frags[:rot]
        return {'ref': ref, 'r1_rev': draw(st.booleans()), 'frags': frags, 'dove_safe': False, 'prior': None, 'perm_seeds': [], 'deep': True}
    return case()


def build_fragment(h, ref, i, f, r1_rev):
    from singlecellmultiomics.fragment import Fragment
    reads = []
    for which, r, rev in (('r1', f['r1'], r1_rev), ('r2', f['r2'], not r1_rev)):
        if r is None:
            reads.append(None)
            continue
        other = f['r2'] if which == 'r1' else f['r1']
        a = mk_read(h, 'frag%d' % i, 0, r['pos'], r['seq'], reverse=rev, sample='cellA', umi='ACG', cigar=r['cigar'],
                    qual=''.join(chr(33 + q) for q in r['qual']), paired=True, read2=(which == 'r2'),
                    mate=((0, other['pos'], not rev, False) if other is not None else (0, 0, False, True)))
        if f.get('nomd') != which:
            a.set_tag('MD', md_tag(ref, r['pos'], r['seq'], r['cigar']))
        reads.append(a)
    return Fragment(reads, assignment_radius=10 ** 6, umi_hamming_distance=0)


def mate_calls(r):
    if r is None:
        return {}
    return {rp: (r['seq'][qp], r['qual'][qp]) for qp, rp in aligned_pairs(r['pos'], r['cigar'])}


def fragment_calls(f, r1_rev, dove_safe):
    """position -> base (one call per fragment, None = no vote) by the statement's rule."""
    if f.get('nomd') and f[f['nomd']] is not None:
        return {}
    c1, c2 = mate_calls(f['r1']), mate_calls(f['r2'])
    if dove_safe:
        if f['r2'] is None:
            return {}
        r1s, r1e = f['r1']['pos'], f['r1']['pos'] + ref_len(f['r1']['cigar'])
        r2s, r2e = f['r2']['pos'], f['r2']['pos'] + ref_len(f['r2']['cigar'])
        if r1_rev:
            lo, hi = r2s, r1e - 1
        else:
            lo, hi = r1s, r2e - 1
        c1 = {p: v for p, v in c1.items() if lo <= p <= hi}
        c2 = {p: v for p, v in c2.items() if lo <= p <= hi}
    res = {}
    for p in set(c1) | set(c2):
        a, b = c1.get(p), c2.get(p)
        if a is None:
            call = b[0]
        elif b is None:
            call = a[0]
        elif a[1] > b[1]:
            call = a[0]
        elif b[1] > a[1]:
            call = b[0]
        elif a[0] == b[0]:
            call = a[0]
        else:
            call = None
        if call is not None and call != 'N':
            res[p] = call
    return res


def vote(frag_calls):
    tally = {}
    for fc in frag_calls:
        for p, b in fc.items():
            tally.setdefault(p, {}).setdefault(b, 0)
            tally[p][b] += 1
    cons, ties = {}, 0
    for p, t in tally.items():
        best = max(t.values())
        winners = [b for b, n in t.items() if n == best]
        if len(winners) == 1:
            cons[p] = winners[0]
        else:
            ties += 1
    return cons, ties


class ObsMismatch(Exception):
    pass


def run_molecule(case, order, double=False):
    from singlecellmultiomics.molecule import Molecule
    h = header(CONTIG)
    frs = [build_fragment(h, case['ref'], i, case['frags'][i], case['r1_rev']) for i in order]
    if double:
        frs = frs + [build_fragment(h, case['ref'], i, case['frags'][i], case['r1_rev']) for i in order]
    k = case.get('merge')
    if k and 0 < k < len(frs) and not double:
        # history: the first k fragments form a molecule that is asked for its consensus, then a second molecule holding
        # the remaining fragments is merged into it (Molecule.add_molecule)
        m = Molecule(frs[0])
        for f in frs[1:k]:
            if not m.add_fragment(f):
                raise RuntimeError('harness: fragment refused by molecule')
        other = Molecule(frs[k])
        for f in frs[k + 1:]:
            if not other.add_fragment(f):
                raise RuntimeError('harness: fragment refused by molecule')
        m.get_consensus(dove_safe=case['dove_safe'])
        m.add_molecule(other)
    else:
        m = Molecule(frs[0])
        for f in frs[1:]:
            if not m.add_fragment(f):
                raise RuntimeError('harness: fragment refused by molecule')
    if case.get('prior') is not None:
        # an earlier query on the same molecule object, possibly in the other mode: answers may not depend on it
        m.get_consensus(dove_safe=case['prior'])
    got = m.get_consensus(dove_safe=case['dove_safe'])
    if case.get('with_obs'):
        # the entry point that also returns the observation vectors: its calls must be the same calls
        full = m.get_consensus(dove_safe=case['dove_safe'], with_probs_and_obs=True)
        calls = full[0] if isinstance(full, tuple) else full
        if dict(calls) != dict(got):
            raise ObsMismatch('%d positions differ between get_consensus() and get_consensus(with_probs_and_obs=True)' % len(set(dict(calls).items()) ^ set(dict(got).items())))
    return {k[1] if isinstance(k, tuple) else k: v for k, v in got.items()}, len(m)


def eval_case(case):
    out = Outcome()
    n = len(case['frags'])
    fcalls = [fragment_calls(f, case['r1_rev'], case['dove_safe']) for f in case['frags']]
    exp, ties = vote(fcalls)
    disagree = False
    for f in case['frags']:
        c1, c2 = mate_calls(f['r1']), mate_calls(f['r2'])
        if any(p in c2 and c2[p][0] != c1[p][0] for p in c1):
            disagree = True
    out.nontrivial = ties > 0 and disagree
    if case['dove_safe']:
        out.label('dove_safe')
    if ties:
        out.label('has tie')
    base = list(range(n))
    try:
        got, nm = run_molecule(case, base)
    except ObsMismatch as e:
        return out.bad('calls-differ-with-probs-and-obs', str(e))
    except Exception as e:
        return out.bad('exception:%s' % type(e).__name__, repr(e))
    mode = 'dove_safe' if case['dove_safe'] else 'plain'
    if (case.get('prior') is not None or case.get('merge')) and got != exp:
        g0, _ = run_molecule(dict(case, prior=None, merge=None), base)
        if g0 == exp:
            out.bad('%s:answer-depends-on-an-earlier-query' % mode, 'after get_consensus(dove_safe=%r) / a merge at %r on the same molecule: %d positions differ from the answer of a fresh molecule' % (
                case['prior'], case.get('merge'), len(set(got.items()) ^ set(exp.items()))))
            return out
    if got != exp:
        diffs = sorted(set(got.items()) ^ set(exp.items()))
        p = diffs[0][0]
        tally = {}
        for fc in fcalls:
            if p in fc:
                tally[fc[p]] = tally.get(fc[p], 0) + 1
        if p in got and p not in exp:
            kind = 'tie-or-novote-position-reported' if tally else 'position-without-votes-reported'
        elif p in exp and p not in got:
            kind = 'majority-position-missing'
        else:
            kind = 'wrong-base'
        out.bad('%s:%s' % (mode, kind), 'position %d: got %r expected %r; fragment votes there %r; r1_rev=%r' % (
            p, got.get(p), exp.get(p), tally, case['r1_rev']))
        return out
    if case.get('deep'):
        out.nontrivial = n >= 256
        out.label('deep molecule: %d fragments' % n)
        return out
    # metamorphic: insertion order
    if n <= 4:
        orders = list(itertools.permutations(base))
    else:
        import random
        orders = []
        for s in case['perm_seeds']:
            o = base[:]
            random.Random(s).shuffle(o)
            orders.append(o)
    for o in orders:
        g2, _ = run_molecule(case, list(o))
        if g2 != got:
            out.bad('%s:order-dependent' % mode, 'order %r gives %r, order %r gives %r' % (base, got, list(o), g2))
            return out
    g3, _ = run_molecule(case, base, double=True)
    if g3 != got:
        out.bad('%s:changed-by-duplicating-all-fragments' % mode, 'single %r doubled %r' % (got, g3))
    return out


def parts(tier):
    t = tier == 'thorough'
    return [Part('molecules', eval_case, strategy=strategy, examples=300000 if t else 4000),
            Part('deep', eval_case, strategy=deep_strategy, examples=3000 if t else 64)]
