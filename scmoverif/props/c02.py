"""C02 - demultiplexed records contain exactly the bases the protocol layout prescribes."""
import collections
from hypothesis import strategies as st
from ..core import Part, Outcome, scratch_dir
from ..common import demuxsim as ds

ID = 'C02'
LEVEL = 'exploration'
NONTRIVIAL_FLOOR = 0.5
RULE = ('Hypothesis-generated accepted read pairs for every registered strategy (each strategy has its own sub-budget): '
        'whitelisted barcode (or a 1-mismatch one under Hamming expansion 1) at the protocol position, random UMI / '
        'ligation / primer bases incl. N, inserts of length 0..150, qualities 0..51, both mates; content-dependent '
        'strategies get inserts seeded with the motifs their branches test. Oracle (1): a hand-written layout table '
        '(from the description texts) for 19 strategies: bc BC RX RQ rS lh lq ES IS and the emitted stretch of each mate; '
        '(2) for all strategies: emitted sequence+quality is one contiguous, index-aligned stretch of the same mate, '
        'every base before its end is accounted for and nothing comes from the other mate, decided by single-base '
        'perturbation. Non-trivial: accepted pair with a non-empty insert on every mate.')
ASSUMPTIONS = ['only accepted pairs are judged', 'where a description does not fix the positions (9 strategies) only the '
               'relation (2) is asserted', 'random primer = first N bases of the named mate (all paired-end descriptions)']

NAMES = list(ds.LAYOUT) + ds.NO_TABLE
TSO = 'AGACTCTTT'


def strategy(names):
    @st.composite
    def case(draw):
        name = draw(st.sampled_from(names))
        mates = ds.LAYOUT.get(name, {}).get('mates', 2)
        reads = []
        motif = draw(st.sampled_from(['none', 'none', 'tso', 'polyT', 'polyA', 'cs2bc', 't7', 'leadT'])) if name != 'CHICTV' else draw(st.sampled_from(['tso', 'tso', 'none']))
        if name == 'TCHIC' and draw(st.integers(0, 3)) == 0:
            motif = 'cs2bc'       # the transcriptome bleed-through branch of this strategy
        for m in range(mates):
            pre = draw(st.text(alphabet='ACGTACGTACGTACGTN', min_size=40, max_size=40))
            il = draw(st.sampled_from([0, 1, 5, 30, 30, 60, 60, 150] if not (motif == 'cs2bc' and name == 'TCHIC') else [60, 60, 90, 150]))
            ins = draw(st.text(alphabet='ACGTACGTACGTACGTACGTN', min_size=il, max_size=il))
            n = len(pre) + len(ins)
            qual = ''.join(chr(33 + q) for q in draw(st.lists(st.integers(0, 51), min_size=n, max_size=n)))
            reads.append({'pre': pre, 'ins': ins, 'qual': qual})
        tx = False
        if name == 'DamAndT':
            tx = draw(st.sampled_from([False, False, True, True, 'both']))
        return {'via_file': draw(st.sampled_from([None, None, None, None, None, None, True, False])),
                'tx': tx, 'strategy': name, 'exact_prefix': draw(st.sampled_from([None, None, None, None, 0, 1, 'both'])), 'bc_idx': draw(st.integers(0, 10 ** 6)), 'mismatch': draw(st.sampled_from([None, None, None, 0, 3, 7])),
                'hd': 1 if tx == 'both' else draw(st.sampled_from([0, 0, 1])), 'reads': reads, 'motif': motif, 'motif_pos': draw(st.integers(0, 40)),
                'perturb': draw(st.lists(st.tuples(st.integers(0, 1), st.integers(0, 120), st.sampled_from('ACGT'), st.integers(0, 51)), min_size=3, max_size=3)),
                'serial': draw(st.integers(1, 99999)), 'index': draw(st.integers(0, 10 ** 6))}
    return case()


def materialise(case, scratch=None):
    """Builds FastqRecords for the case. Returns (records, meta) or (None, why)"""
    from singlecellmultiomics.fastqProcessing.fastqIterator import FastqRecord
    loader, strategies, bp, ip, _ = ds.get_loader(scratch or scratch_dir(), case['hd'])
    s = strategies.get(case['strategy'])
    if s is None:
        return None, 'strategy not registered'
    pl = ds.placement(s)
    if case.get('tx') is True and case['strategy'] == 'DamAndT':
        # the transcriptome branch of this strategy: a CEL-Seq2 read (6 bp UMI, 8 bp barcode of the celseq2 whitelist)
        pl = dict(pl, parts=[(0, 6, 8, 'celseq2', 0)])
    seqs = []
    for r in case['reads']:
        seqs.append(list(r['pre'] + r['ins']))
    # motifs for content dependent branches, placed into the insert of R1 / R2
    mo = case['motif']
    if mo != 'none' and len(seqs[0]) > 60:
        p = 44 + case['motif_pos'] % max(1, len(seqs[0]) - 60)
        ins = {'tso': TSO, 'polyT': 'T' * 25, 'polyA': 'A' * 12, 't7': 'TAATACGACTCACTATAGGG', 'leadT': 'T' * 6}.get(mo)
        if mo == 'leadT':
            p = 14
        if ins:
            target = seqs[0] if mo != 'polyA' or len(seqs) == 1 else seqs[-1]
            if p + len(ins) <= len(target):
                target[p:p + len(ins)] = list(ins)
    raw_bc = None
    bc_positions = []
    if pl['parts']:
        alias = pl['parts'][0][3]
        wl = ds.whitelist(bp, alias)
        if not wl:
            return None, 'empty whitelist %s' % alias
        bc, idx = wl[case['bc_idx'] % len(wl)]
        raw = list(bc)
        if case['mismatch'] is not None and case['hd'] == 1:
            p = case['mismatch'] % len(raw)
            raw[p] = 'ACGT'[('ACGT'.index(raw[p]) + 1) % 4] if raw[p] in 'ACGT' else 'A'
        raw_bc = ''.join(raw)
        for (m, start, ln, al, off) in pl['parts']:
            if m >= len(seqs) or start + ln > len(seqs[m]):
                return None, 'read too short'
            seqs[m][start:start + ln] = list(raw_bc[off:off + ln])
            bc_positions.extend((m, start + i) for i in range(ln))
    if case.get('tx') == 'both' and case['strategy'] == 'DamAndT':
        amb = ambiguous_damandt(bp, case)
        if amb is None or len(seqs[0]) < 14:
            return None, 'no barcode pair for an ambiguous DamAndT read'
        seqs[0][3:13] = list(amb[0])
        seqs[0][13] = amb[1]
        raw_bc = amb[0]
    if mo == 'cs2bc' and case['strategy'] == 'TCHIC' and len(seqs[0]) > 80:
        # expected CEL-Seq2 bleed-through: the cs2 barcode of the same cell index followed by poly-T
        cs2 = {v: k for k, v in (bp['celseq2'] or {}).items()}
        wl = ds.whitelist(bp, 'maya_384NLA')
        idx = dict(wl).get(raw_bc)
        if idx in cs2:
            ins = 'ACGTTG' + cs2[idx] + 'TTTTT'
            seqs[0][50:50 + len(ins)] = list(ins)
    iw = ds.index_whitelist(ip)
    index_seq = iw[case['index'] % len(iw)][0] if iw else 'ACGTAC'
    records = []
    # a mate that is exactly as long as its layout prefix: the emitted stretch is empty
    lay = ds.LAYOUT.get(case['strategy'])
    quals = [r['qual'] for r in case['reads']]
    if lay and case.get('exact_prefix') is not None:
        for m in range(len(seqs)):
            if case['exact_prefix'] in (m, 'both') and m < len(lay['ins']):
                seqs[m] = seqs[m][:lay['ins'][m]]
                quals[m] = quals[m][:lay['ins'][m]]
    for m, (sq, r) in enumerate(zip(seqs, case['reads'])):
        header = '@NS500:12:HFLOWXX:%d:1101:%d:7 %d:N:0:%s' % (1 + case['serial'] % 4, case['serial'], m + 1, index_seq)
        records.append(FastqRecord(header, ''.join(sq), '+', quals[m][:len(sq)]))
    return records, {'strategy': s, 'raw_bc': raw_bc, 'bc_positions': set(bc_positions), 'placement': pl, 'bp': bp,
                     'alias': pl['parts'][0][3] if pl['parts'] else None, 'index_seq': index_seq}


_AMB = {}


def ambiguous_damandt(bp, case):
    """R1[3:13] and R1[13] such that (under expansion distance 1) R1[3:13] resolves to a DamID2 barcode AND R1[6:14] to a
    CEL-Seq2 barcode: the DamID2 barcode with a read error in its last base (drawn) overlapping a compatible CEL-Seq2 barcode."""
    if case['hd'] != 1:
        return None
    if 'pairs' not in _AMB:
        dam = [b for b, _ in ds.whitelist(bp, 'DamID2')]
        cs2 = [b for b, _ in ds.whitelist(bp, 'celseq2')]
        pairs = []
        for d in dam:
            for err in 'ACGT':
                if err == d[9]:
                    continue
                x = d[:9] + err
                for c in cs2:
                    dist = sum(a != b for a, b in zip(c[:7], x[3:10]))
                    if dist <= 1:
                        pairs.append((x, c[7]))
        _AMB['pairs'] = pairs
    pairs = _AMB['pairs']
    if not pairs:
        return None
    return pairs[case['bc_idx'] % len(pairs)]


def run(strategy, records):
    from singlecellmultiomics.modularDemultiplexer.baseDemultiplexMethods import NonMultiplexable
    try:
        res = strategy.demultiplex(list(records), library='libA')
    except NonMultiplexable as e:
        return None, 'rejected:%s' % e
    if not isinstance(res, (list, tuple)):
        res = [res]
    return res, None


def snapshot(tagged):
    out = []
    for t in tagged:
        if isinstance(t, str):      # the bulk demultiplexer returns FASTQ text
            lines = t.rstrip('\n').split('\n')
            out.append({'seq': lines[1], 'qual': lines[3], 'tags': ds.header_tags(lines[0]) or {}})
        else:
            out.append({'seq': t.sequence, 'qual': t.qualities, 'tags': dict(t.tags)})
    return out


def find_offset(emitted_seq, emitted_qual, in_seq, in_qual):
    n = len(emitted_seq)
    for o in range(0, len(in_seq) - n + 1):
        if in_seq[o:o + n] == emitted_seq and in_qual[o:o + n] == emitted_qual:
            return o
    return None


def eval_case(case):
    out = Outcome()
    name = case['strategy']
    records, meta = materialise(case)
    if records is None:
        return out.label('skipped:%s' % meta)
    s = meta['strategy']
    if case.get('via_file') is not None:
        # the pair reaches the strategy the way demux.py feeds it: written to FASTQ files (the last line with or without a
        # terminating newline) and read back by the toolkit's FastqIterator
        import os
        from singlecellmultiomics.fastqProcessing.fastqIterator import FastqIterator
        paths = []
        for m, r in enumerate(records):
            pth = os.path.join(scratch_dir(), 'c02_%d_R%d.fastq' % (os.getpid(), m + 1))
            txt = '%s\n%s\n+\n%s\n' % (r.header, r.sequence, r.qual)
            with open(pth, 'w') as f:
                f.write(txt if case['via_file'] else txt[:-1])
            paths.append(pth)
        try:
            got = list(FastqIterator(*paths))
        finally:
            for pth in paths:
                os.remove(pth)
        if len(got) != 1 or any(g.sequence != r.sequence or g.qual != r.qual for g, r in zip(got[0], records)):
            return out.bad('file-reader-changes-the-record', 'written %r, read back %r' % (
                [(r.sequence[-8:], r.qual[-8:]) for r in records], [[(g.sequence[-8:], g.qual[-8:]) for g in t] for t in got][:2]))
        records = list(got[0])
        out.label('through FastqIterator')
    try:
        tagged, why = run(s, records)
    except Exception as e:
        import traceback
        tb = [x for x in traceback.extract_tb(e.__traceback__) if 'singlecellmultiomics' in x.filename]
        return out.bad('%s:exception:%s:%s' % (name, type(e).__name__, tb[-1].name if tb else '?'), '%r on %r' % (e, [r.sequence[:40] for r in records]))
    if tagged is None:
        return out.label('rejected:%s' % name)
    snap = snapshot(tagged)
    out.label('accepted:%s' % name)
    if snap and snap[0]['tags'].get('dt') not in (None, 'CHIC'):
        out.label('branch:%s:%s' % (name, snap[0]['tags'].get('dt')))
    if len(snap) != len(records):
        out.bad('%s:record-count' % name, '%d records in, %d out' % (len(records), len(snap)))
        return out
    out.nontrivial = all(len(x['seq']) > 0 for x in snap)
    lay = ds.LAYOUT.get(name)
    # ---------------- (0) raw / corrected barcode tags for every strategy: bc is what the harness spliced into the read,
    # BC is a whitelist member within the expansion distance
    if meta['raw_bc'] is not None and name not in ('DamID2andT_3u4b3u4b', 'DamID2andT_3u4b3u6b', 'DamAndT'):
        wl_all = dict(ds.whitelist(meta['bp'], meta['alias']))
        for sn in snap:
            if 'bc' in sn['tags'] and sn['tags']['bc'] != meta['raw_bc']:
                out.bad('%s:tag-bc-not-the-raw-bases' % name, 'bc tag %r, bases in the read %r (BC %r)' % (sn['tags']['bc'], meta['raw_bc'], sn['tags'].get('BC')))
                break
            if 'BC' in sn['tags'] and sn['tags']['BC'] not in wl_all:
                out.bad('%s:tag-BC-not-whitelisted' % name, 'BC tag %r (raw %r)' % (sn['tags']['BC'], meta['raw_bc']))
                break
    # ---------------- (2a) contiguity / same mate / alignment of qualities
    offsets = []
    for m, (rec, sn) in enumerate(zip(records, snap)):
        if len(sn['seq']) != len(sn['qual']):
            out.bad('%s:seq-qual-length' % name, 'mate %d: %d bases, %d qualities' % (m + 1, len(sn['seq']), len(sn['qual'])))
            offsets.append(None)
            continue
        o = find_offset(sn['seq'], sn['qual'], rec.sequence, rec.qual)
        offsets.append(o)
        if o is None:
            other = records[1 - m] if len(records) == 2 else None
            if other is not None and find_offset(sn['seq'], sn['qual'], other.sequence, other.qual) is not None and len(sn['seq']) > 3:
                out.bad('%s:emitted-from-the-other-mate' % name, 'mate %d emitted %r' % (m + 1, sn['seq'][:30]))
            elif any(sn['seq'] == rec.sequence[k:k + len(sn['seq'])] for k in range(len(rec.sequence) + 1)):
                out.bad('%s:qualities-not-aligned-with-bases' % name, 'mate %d' % (m + 1))
            else:
                out.bad('%s:emitted-not-a-contiguous-stretch' % name, 'mate %d emitted %r from %r' % (m + 1, sn['seq'][:40], rec.sequence[:60]))
    # ---------------- (1a) DamAndT, transcriptome branch: the documented CEL-Seq2 layout (6 bp UMI, 8 bp barcode, insert from 14,
    # leading poly-T pruned from R1)
    if name == 'DamAndT' and snap[0]['tags'].get('dt') == 'RNA' and not out.violations:
        r1 = records[0]
        for sn in snap:
            if sn['tags'].get('RX') != r1.sequence[0:6] or sn['tags'].get('bc') != r1.sequence[6:14]:
                out.bad('DamAndT:RNA-branch:tag-RX-or-bc', 'RX %r bc %r, read starts %r' % (sn['tags'].get('RX'), sn['tags'].get('bc'), r1.sequence[:16]))
                break
        ins = r1.sequence[14:]
        want = ins.lstrip('T') if ins.lstrip('T') else ins[-1:]
        if snap[0]['seq'] != want and len(ins) > 0:
            out.bad('DamAndT:RNA-branch:insert', 'emitted R1 %r..., expected the insert from position 14 without its leading T run %r...' % (snap[0]['seq'][:20], want[:20]))
    # ---------------- (1b') DamAndT, DamID and Ambiguous branches: the record is what the DamID2 strategy alone makes of the pair
    if name == 'DamAndT' and snap[0]['tags'].get('dt') in ('DamID', 'Ambiguous') and not out.violations:
        _, strategies_, _, _, _ = ds.get_loader(scratch_dir(), case['hd'])
        try:
            alone, _ = run(strategies_['DamID2'], records)
        except Exception:
            alone = None
        if alone is not None:
            sa = snapshot(alone)
            for m, (x, y) in enumerate(zip(snap, sa)):
                if x['seq'] != y['seq'] or x['qual'] != y['qual']:
                    out.bad('DamAndT:%s-branch:differs-from-DamID2-alone' % snap[0]['tags'].get('dt'), 'mate %d: %r... vs DamID2 %r...' % (m + 1, x['seq'][:24], y['seq'][:24]))
                    break
                for t in ('RX', 'bc', 'BC', 'bi', 'RQ'):
                    if x['tags'].get(t) != y['tags'].get(t):
                        out.bad('DamAndT:%s-branch:tag-differs-from-DamID2-alone' % snap[0]['tags'].get('dt'), 'tag %s: %r vs %r' % (t, x['tags'].get(t), y['tags'].get(t)))
                        break
            out.label('DamAndT compared with DamID2 alone')
    # ---------------- (1c) scattered DamID layouts (UMI, CB, UMI, CB, then the insert), DamID branch: the emitted stretch of
    # mate 1 starts right behind the last barcode base and its first two bases are the ligation tag lh / lq
    if name in ('DamID2_3u4b3u6b', 'DamID2andT_3u4b3u4b', 'DamID2andT_3u4b3u6b') and (snap[0]['tags'].get('dt') == 'DamID' or name == 'DamID2_3u4b3u6b') \
            and not out.violations and meta['bc_positions']:
        last_bc = max(p_ for m_, p_ in meta['bc_positions'] if m_ == 0)
        if offsets[0] is not None and len(snap[0]['seq']) > 0 and offsets[0] != last_bc + 1 and \
                records[0].sequence[last_bc + 1:last_bc + 1 + len(snap[0]['seq'])] != snap[0]['seq']:
            out.bad('%s:scattered:insert-start' % name, 'emitted mate 1 starts at %r, the last barcode base is at %d' % (offsets[0], last_bc))
        if 'lh' in snap[0]['tags'] and len(snap[0]['seq']) >= 2:
            if snap[0]['tags']['lh'] != snap[0]['seq'][:2] or snap[0]['tags'].get('lq') != ds.phred_to_safe(snap[0]['qual'][:2]):
                out.bad('%s:scattered:ligation-tag' % name, 'lh %r lq %r, first emitted bases %r' % (snap[0]['tags']['lh'], snap[0]['tags'].get('lq'), snap[0]['seq'][:2]))
    # ---------------- (1) layout table
    if lay and not out.violations:
        t0 = snap[0]['tags']

        def piece(spec, what='sequence'):
            m, st_, ln = spec
            src = records[m].sequence if what == 'sequence' else records[m].qual
            return src[st_:st_ + ln]
        exp = {}
        if 'bc' in lay:
            exp['bc'] = piece(lay['bc'])
        if 'umi' in lay:
            exp['RX'] = piece(lay['umi'])
            exp['RQ'] = ds.phred_to_safe(piece(lay['umi'], 'qual'))
        if 'rp' in lay:
            exp['rS'] = records[lay['rp'][0]].sequence[:lay['rp'][1]]
        if 'lig' in lay:
            exp['lh'] = piece(lay['lig'])
            exp['lq'] = ds.phred_to_safe(piece(lay['lig'], 'qual'))
        if 'enz' in lay:
            exp['ES'] = piece(lay['enz'])
            exp['eq'] = ds.phred_to_safe(piece(lay['enz'], 'qual'))
        if 'ispcr' in lay:
            exp['IS'] = piece(lay['ispcr'])
        wl = dict(ds.whitelist(meta['bp'], meta['alias']))
        for sn_i, sn in enumerate(snap):
            for k, v in exp.items():
                got = sn['tags'].get(k)
                if got != v:
                    out.bad('%s:tag-%s' % (name, k), 'mate %d record: tag %s = %r, layout prescribes %r (reads %r / %r)' % (
                        sn_i + 1, k, got, v, records[0].sequence[:34], records[-1].sequence[:34]))
            if 'rp' not in lay and 'rS' in sn['tags']:
                out.bad('%s:tag-rS-unexpected' % name, 'rS=%r although the layout has no random primer' % sn['tags']['rS'])
            if 'bc' in lay:
                corrected = sn['tags'].get('BC')
                if corrected not in wl or str(sn['tags'].get('bi')) != str(wl[corrected]):
                    out.bad('%s:tag-BC-bi' % name, 'BC %r bi %r not a whitelist pair' % (corrected, sn['tags'].get('bi')))
                elif sum(a != b for a, b in zip(corrected, exp['bc'])) > case['hd']:
                    out.bad('%s:tag-BC-too-far' % name, 'raw %r corrected %r' % (exp['bc'], corrected))
            if sn['tags'].get('MX') != name:
                out.bad('%s:tag-MX' % name, 'MX=%r' % sn['tags'].get('MX'))
        for m, (rec, sn) in enumerate(zip(records, snap)):
            want = rec.sequence[lay['ins'][m]:]
            if sn['seq'] != want or sn['qual'] != rec.qual[lay['ins'][m]:]:
                o = offsets[m]
                out.bad('%s:insert-start:mate%d' % (name, m + 1), 'emitted stretch starts at %r (length %d), layout prescribes %d..end (length %d)' % (
                    o, len(sn['seq']), lay['ins'][m], len(want)))
    # ---------------- (1b) a second pair of the same cell with another raw barcode through the same strategy instance:
    # every pair is judged on its own bases (no state may leak between pairs)
    if lay and not out.violations and case['hd'] == 1 and 'bc' in lay:
        sib = dict(case)
        sib['mismatch'] = 2 if case['mismatch'] is None else None
        recs2, meta2 = materialise(sib)
        if recs2 is not None:
            try:
                t2, _ = run(s, recs2)
            except Exception:
                t2 = None
            if t2 is not None:
                sn2 = snapshot(t2)
                m_, st_, ln_ = lay['bc']
                want = recs2[m_].sequence[st_:st_ + ln_]
                for i, x in enumerate(sn2):
                    if x['tags'].get('bc') != want:
                        out.bad('%s:tag-bc:second-pair-of-the-cell' % name, 'second pair of the same cell: bc tag %r, its own bases are %r (first pair had %r)' % (
                            x['tags'].get('bc'), want, snap[0]['tags'].get('bc')))
                        break
                    if 'umi' in lay and x['tags'].get('RX') != recs2[lay['umi'][0]].sequence[lay['umi'][1]:lay['umi'][1] + lay['umi'][2]]:
                        out.bad('%s:tag-RX:second-pair-of-the-cell' % name, 'RX %r' % x['tags'].get('RX'))
                        break
                out.label('second pair of the same cell checked')
    # ---------------- (2b) perturbation relation
    if not out.violations:
        for (m, p, base, q) in case['perturb']:
            if m >= len(records):
                m = 0
            rec = records[m]
            end = (offsets[m] or 0) + len(snap[m]['seq'])
            if end == 0:
                continue
            p = p % end
            if (m, p) in meta['bc_positions']:
                continue
            if rec.sequence[p] == base:
                base = 'ACGT'[('ACGT'.index(base) + 1) % 4]
            newq = chr(33 + q)
            from singlecellmultiomics.fastqProcessing.fastqIterator import FastqRecord
            mutated = list(records)
            mutated[m] = FastqRecord(rec.header, rec.sequence[:p] + base + rec.sequence[p + 1:], rec.plus, rec.qual[:p] + newq + rec.qual[p + 1:])
            try:
                t2, why = run(s, mutated)
            except Exception:
                t2 = None
            if t2 is None:
                continue     # the change altered acceptance (content dependent strategy): no statement
            sn2 = snapshot(t2)
            if len(sn2) != len(snap):
                continue
            if snap[0]['tags'].get('dt') != sn2[0]['tags'].get('dt') or set(snap[0]['tags']) != set(sn2[0]['tags']):
                continue     # the change moved a content dependent strategy into another documented branch
                             # (e.g. TCHIC transcriptome bleed-through detected on R1 decides the trimming of R2)
            changed_tags = {k for k in set(snap[0]['tags']) | set(sn2[0]['tags']) if snap[0]['tags'].get(k) != sn2[0]['tags'].get(k)}
            changed_emit = [i for i in range(len(snap)) if snap[i]['seq'] != sn2[i]['seq'] or snap[i]['qual'] != sn2[i]['qual']]
            if not changed_tags and not changed_emit and rec.qual[p] != newq:
                if name in ('TCHIC', 'CHICTV', 'DamAndT', 'DamID2andT_3u4b3u4b', 'DamID2andT_3u4b3u6b'):
                    continue      # documented trimming of these protocols removes bases on purpose
                out.bad('%s:base-unaccounted' % name, 'changing mate %d position %d (before the end of the emitted stretch at %d) changes no tag and no emitted base' % (m + 1, p, end))
            other = [i for i in changed_emit if i != m]
            if other:
                out.bad('%s:wrong-mate' % name, 'changing mate %d position %d changed the emitted record of mate %d' % (m + 1, p, other[0] + 1))
            if m in changed_emit and offsets[m] is not None:
                # exactly one emitted position may differ, by exactly that base
                a, b = snap[m]['seq'], sn2[m]['seq']
                if len(a) == len(b):
                    diff = [i for i in range(len(a)) if a[i] != b[i] or snap[m]['qual'][i] != sn2[m]['qual'][i]]
                    if diff and (len(diff) != 1 or b[diff[0]] != base):
                        out.bad('%s:perturbation-moves-more-than-one-base' % name, 'mate %d position %d -> emitted differences at %r' % (m + 1, p, diff[:5]))
    seen = {}
    for sg, msg in out.violations:
        seen.setdefault(sg, msg)
    out.violations = list(seen.items())
    return out


def parts(tier):
    t = tier == 'thorough'
    per = 10000 if t else 150
    return [
        Part('table', eval_case, strategy=lambda: strategy(list(ds.LAYOUT)), examples=per * len(ds.LAYOUT)),
        Part('relation', eval_case, strategy=lambda: strategy(ds.NO_TABLE), examples=per * len(ds.NO_TABLE)),
    ]
