"""C08 - parallel tagging is equivalent to serial tagging."""
import os
import shutil
import collections
import pysam
from hypothesis import strategies as st
from ..core import Part, Outcome, scratch_dir
from ..common import libsim, tagrun
from ..common.bamsim import write_bam

ID = 'C08'
LEVEL = 'exploration'
NONTRIVIAL_FLOOR = 0.2
RULE = ('Hypothesis-generated simulated libraries (several contigs, molecules with PCR copies whose fragments straddle bin '
        'boundaries, sites on and next to multiples of the segment size, unmapped / half-mapped / orphan reads). Part '
        'contig: --multiprocess (1..8 workers; deterministic pool with a drawn completion order or the real pool) vs one '
        'serial pass. Part tiling: tag_multiome_multi_processing(one_contig_per_process=False) reached through the command '
        'line function with drawn bp_per_segment / fragment_size (>= longest fragment) / bp_per_job vs the serial pass. '
        'Oracle: equality of the multisets of (name, mate, duplicate bit, qc-fail bit, contig, position, DS RS RZ RC af TF RR). '
        'Non-trivial: contig part: >=2 contigs carrying multi-fragment molecules; tiling part: >=2 non-empty bins and a '
        'molecule with fragments on both sides of a bin boundary.')
ASSUMPTIONS = ['fetch margin (fragment_size) larger than the longest fragment', 'per-run ids (mi, ix), @PG lines and order among equal coordinates ignored',
               'tiling mode: sites lie inside [0, contig length) (a site at -1 or at the contig end belongs to no bin by construction of the bins)']

TAGS = ['DS', 'RS', 'RZ', 'RC', 'af', 'TF', 'RR', 'SM', 'RX']


def strategy(kind):
    @st.composite
    def case(draw):
        if kind == 'tiling':
            seg = draw(st.sampled_from([250, 500, 1000]))
            nseg = draw(st.integers(2, 6))
            L = seg * nseg
            sites = []
            for _ in range(draw(st.integers(1, 5))):
                b = draw(st.integers(1, nseg - 1)) * seg
                sites.append(b + draw(st.sampled_from([-60, -30, -5, -2, -1, 0, 0, 1, 2, 5, 30])))
            spec = draw(libsim.spec_strategy(max_contigs=2, max_mols=12, extras=draw(st.booleans()), contig_classes=('small',),
                                             max_cells=3, positions=sites))
            spec['contigs'] = [[c[0], L] for c in spec['contigs']]
            for m in spec['mols']:
                m['site'] = min(max(70, m['site']), L - 150)
                if m['rev'] and draw(st.integers(0, 5)) == 0:
                    # reverse strand molecules lie left of their cut: the cut may be one of the last bases of the contig
                    m['site'] = L - draw(st.integers(1, 6)) - (3 if spec['method'] == 'nla' else 0)
            for e in spec['extras']:
                e['pos'] = min(e['pos'], L - 70)
            run = {'method': spec['method'], 'seg': seg, 'frag': draw(st.sampled_from([160, 200, 400, seg, 2 * seg])),
                   'job': draw(st.sampled_from([seg, 2 * seg, 3 * seg, 10 * seg])), 'threads': draw(st.integers(1, 4)),
                   'pool': draw(st.sampled_from(['det', 'det', 'det', 'real'])),
                   'order': draw(st.lists(st.integers(0, 1000), min_size=4, max_size=4))}
        else:
            spec = draw(libsim.spec_strategy(max_contigs=6, min_contigs=draw(st.sampled_from([1, 2, 2, 3])), max_mols=16, extras=draw(st.booleans()), max_cells=3))
            run = {'method': spec['method'], 'threads': draw(st.integers(1, 8)), 'pool': draw(st.sampled_from(['det', 'det', 'real'])),
                   'order': draw(st.lists(st.integers(0, 1000), min_size=4, max_size=4))}
        run['hamming'] = draw(st.sampled_from([0, 1, 1]))
        run['jobbed'] = draw(st.sampled_from([False, False, True]))       # -jobbed: also write the job regions to a BED file
        run['eject_every'] = draw(st.sampled_from([None, None, 0, 1, 3, 7]))     # buffer check interval of the molecule iterator, scaled down
        return {'spec': spec, 'run': run}
    return case()


def observe(path):
    c = collections.Counter()
    with pysam.AlignmentFile(path) as f:
        for r in f.fetch(until_eof=True):
            tags = tuple((t, r.get_tag(t)) for t in TAGS if r.has_tag(t))
            c[(r.query_name, tagrun.mate_of(r), bool(r.is_duplicate), bool(r.is_qcfail), r.reference_name if r.reference_id >= 0 else None,
               r.reference_start, tags)] += 1
    return c


def run_tiling(bam_in, bam_out, run, d):
    """--multiprocess through the real command line function, but with region tiling instead of contig-per-process."""
    import singlecellmultiomics.universalBamTagger.bamtagmultiome as tm
    orig = tm.tag_multiome_multi_processing

    def patched(**kw):
        kw['one_contig_per_process'] = False
        kw['bp_per_segment'] = run['seg']
        kw['fragment_size'] = run['frag']
        kw['bp_per_job'] = run['job']
        return orig(**kw)
    tm.tag_multiome_multi_processing = patched
    try:
        tagrun.run_tagger(bam_in, bam_out, run['method'], multiprocess=True, threads=run['threads'], pool=run['pool'],
                          order=run['order'], extra=['-umi_hamming_distance', str(run['hamming'])] + (['-jobbed', os.path.join(d, 'jobs.bed')] if run.get('jobbed') else []),
                          eject_every=run.get('eject_every'))
    finally:
        tm.tag_multiome_multi_processing = orig


def eval_case(case, kind):
    out = Outcome()
    spec, run = case['spec'], case['run']
    contigs, records, truth = libsim.realize(spec)
    d = os.path.join(scratch_dir(), 'c08_%d' % os.getpid())
    shutil.rmtree(d, ignore_errors=True)
    os.makedirs(d)
    try:
        bam_in = os.path.join(d, 'in.bam')
        write_bam(bam_in, contigs, records)
        ser, par = os.path.join(d, 'serial.bam'), os.path.join(d, 'parallel.bam')
        extra = ['-umi_hamming_distance', str(run['hamming'])]
        try:
            tagrun.run_tagger(bam_in, ser, run['method'], extra=extra, eject_every=run.get('eject_every'))
        except BaseException as e:
            return out.bad('%s:serial-exception:%s' % (kind, type(e).__name__), repr(e)[:300])
        try:
            if kind == 'tiling':
                run_tiling(bam_in, par, run, d)
            else:
                tagrun.run_tagger(bam_in, par, run['method'], multiprocess=True, threads=run['threads'], pool=run['pool'],
                                  order=run['order'], extra=extra, eject_every=run.get('eject_every'))      # (-jobbed is refused in this mode)
        except BaseException as e:
            import traceback
            tb = [x for x in traceback.extract_tb(e.__traceback__) if 'singlecellmultiomics' in x.filename]
            return out.bad('%s:parallel-exception:%s:%s' % (kind, type(e).__name__, tb[-1].name if tb else '?'), repr(e)[:300])
        if not os.path.exists(par):
            if sum(1 for _ in records) == 0:
                return out
            return out.bad('%s:no-parallel-output' % kind, 'status %r' % tagrun.status_text(par))
        a, b = observe(ser), observe(par)
        if a != b:
            missing, extra_ = a - b, b - a
            names_m = {k[:2] for k in missing}
            names_e = {k[:2] for k in extra_}
            if names_m - names_e:
                k = sorted(k for k in missing if k[:2] in (names_m - names_e))[0]
                sig = 'record-missing-in-parallel'
            elif names_e - names_m:
                k = sorted(k for k in extra_ if k[:2] in (names_e - names_m))[0]
                sig = 'record-only-in-parallel'
            elif sum(extra_.values()) > sum(missing.values()):
                k = sorted(extra_)[0]
                sig = 'record-duplicated-in-parallel'
            else:
                k = sorted(missing)[0]
                other = [x for x in extra_ if x[:2] == k[:2]]
                if other and other[0][2:4] != k[2:4]:
                    sig = 'flags-differ'
                else:
                    sig = 'tags-differ'
                k = (k, other[:1])
            out.bad('%s:%s' % (kind, sig), '%d records differ; e.g. %r; run %r; contigs %r' % (
                sum(missing.values()) + sum(extra_.values()), k, run, contigs))
        # non-trivial
        groups = collections.defaultdict(list)
        for s, t in truth.items():
            if t['cls'] == 'valid':
                groups[tuple(t['key'])].append(s)
        multi = [k for k, v in groups.items() if len(v) >= 2]
        if kind == 'tiling':
            seg = run['seg']
            straddle = any(abs(k[3] - round(k[3] / seg) * seg) < 50 and round(k[3] / seg) > 0 for k in multi)
            bins = {(k[1], k[3] // seg) for k in groups}
            out.nontrivial = straddle and len(bins) >= 2
        else:
            out.nontrivial = len({k[1] for k in multi}) >= 2
        out.label('pool=%s' % run['pool'])
    finally:
        shutil.rmtree(d, ignore_errors=True)
    return out


def parts(tier):
    t = tier == 'thorough'
    return [
        Part('contig', lambda c: eval_case(c, 'contig'), strategy=lambda: strategy('contig'), examples=16000 if t else 500),
        Part('tiling', lambda c: eval_case(c, 'tiling'), strategy=lambda: strategy('tiling'), examples=16000 if t else 500),
    ]
