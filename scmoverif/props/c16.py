"""C16 - feature lookups return exactly the overlapping features after any add history."""
import pysam
from hypothesis import strategies as st
from ..core import Part, Outcome

ID = 'C16'
LEVEL = 'exploration'
NONTRIVIAL_FLOOR = 0.2
RULE = ('Hypothesis-generated operation histories (one list value, shrunk as a whole) over a FeatureContainer: '
        'add / add_nested / duplicate / sort / point query (3 strands, 4 lookup variants) / range query / read '
        'annotation (per base and per block, CIGARs with M,I,D,N,S); every query is compared with a linear scan over '
        'the model list of everything added so far. Non-trivial: a query issued after at least two add rounds whose '
        'correct answer contains a feature added after an earlier query on the same contig, or a query hitting '
        'nesting depth >= 3.')
ASSUMPTIONS = ['feature coordinates are non-negative integers with start<=end (end array is uint64), strands in {+,-}',
               'features are closed intervals [start,end] as findFeaturesAt defines them; pysam blocks are half-open',
               'results are compared as sets (duplicates of an identical feature tuple collapse)']

CONTIGS = ['chr1', 'chr2', 'chrX']
HEADER = pysam.AlignmentHeader.from_dict({'HD': {'VN': '1.6'}, 'SQ': [{'SN': c, 'LN': 100000} for c in CONTIGS + ['chrEmpty']]})


def strategy(max_ops):
    contig = st.sampled_from(CONTIGS + ['chr1', 'chr1'])
    qcontig = st.sampled_from(CONTIGS + ['chr1', 'chr1', 'chrEmpty'])
    strand = st.sampled_from(['+', '-'])
    qstrand = st.sampled_from([None, None, '+', '-'])
    coord = st.one_of(st.integers(0, 120), st.integers(0, 450))
    length = st.one_of(st.sampled_from([0, 0, 1, 5]), st.integers(0, 120), st.integers(0, 30))
    qcoord = st.one_of(st.integers(-20, 140), st.integers(-20, 480))
    cig = st.lists(st.tuples(st.sampled_from('MMMDNIS'), st.integers(1, 25)), min_size=1, max_size=5)
    add = st.tuples(st.just('add'), contig, coord, length, st.integers(0, 30), strand)
    nested = st.tuples(st.just('add_nested'), contig, coord, st.integers(10, 120), st.integers(2, 6), strand)
    dup = st.tuples(st.just('dup'), st.integers(0, 10 ** 6))
    sort = st.tuples(st.just('sort'))
    at = st.tuples(st.just('at'), qcontig, qcoord, qstrand, st.sampled_from(['bdbnb', 'bdbnb', 'bdbnb', 'nb', 'optim']))
    at_feature = st.tuples(st.just('at_feature'), st.integers(0, 10 ** 6), st.sampled_from([-1, 0, 0, 1]), st.sampled_from(['start', 'end', 'mid']), qstrand)
    between = st.tuples(st.just('between'), qcontig, qcoord, st.integers(0, 80), qstrand)
    read = st.tuples(st.just('read'), qcontig, st.integers(0, 460), cig, qstrand, st.sampled_from([0, 1]))
    # a read whose deletion / intron (1..3 bases) lies exactly on the start of an existing feature
    read_gap = st.tuples(st.just('read_gap'), st.integers(0, 10 ** 6), st.integers(1, 20), st.integers(1, 3), st.sampled_from('DN'),
                         st.integers(1, 20), qstrand, st.sampled_from([0, 1]))
    between_feature = st.tuples(st.just('between_feature'), st.integers(0, 10 ** 6), st.integers(-3, 3), st.integers(0, 40), qstrand)
    adds = st.lists(st.one_of(add, add, add, nested, dup), min_size=1, max_size=max(2, max_ops // 6))
    queries = st.lists(st.one_of(at, at_feature, at_feature, at_feature, between, between_feature, read, read_gap), min_size=1,
                       max_size=max(2, max_ops // 6))
    # a history is a sequence of rounds add* [sort] query*; the explicit sort is usually present (the listed
    # histories), sometimes omitted (lazy re-index) and sometimes repeated
    rnd = st.tuples(adds, st.sampled_from([[['sort']], [['sort']], [['sort']], [], [['sort'], ['sort']]]), queries)
    free = st.lists(st.one_of(add, add, nested, dup, sort, at, at_feature, between, read), min_size=3, max_size=max_ops)
    structured = st.lists(rnd, min_size=1, max_size=4).map(
        lambda rs: [list(x) for r in rs for x in (list(r[0]) + list(r[1]) + list(r[2]))])
    return st.one_of(structured, structured, structured, free.map(lambda l: [list(x) for x in l]))


def scan_at(model, c, x, strand):
    return {f for f in model.get(c, []) if f[0] <= x <= f[1] and (strand is None or f[3] == strand)}


def scan_between(model, c, a, b, strand):
    return {f for f in model.get(c, []) if max(a, f[0]) <= min(b, f[1]) and (strand is None or f[3] == strand)}


def eval_history(case):
    from singlecellmultiomics.features import FeatureContainer
    out = Outcome()
    fc = FeatureContainer()
    model = {}
    history = []           # model snapshots (as frozensets per contig) at earlier query times, for "stale" classification
    added_since_sort = False
    sorts = 0
    add_rounds = 0
    in_add_round = False
    queried_contigs_at = {}   # contig -> number of features on contig at last query
    all_feats = []
    nontrivial = False

    def add(c, s, e, name, strand):
        nonlocal added_since_sort, in_add_round, add_rounds
        fc.addFeature(c, s, e, name, strand=strand)
        f = (s, e, name, strand, None)
        model.setdefault(c, []).append(f)
        all_feats.append((c, f))
        added_since_sort = True
        if not in_add_round:
            in_add_round = True
            add_rounds += 1

    def depth(c, x):
        return len(scan_at(model, c, x, None))

    def judge(kind, got, exp, c, qdesc):
        nonlocal nontrivial
        got = set(got)
        mode = 'after-sort' if not added_since_sort else 'without-resort'
        # non-trivial?
        prev_n = queried_contigs_at.get(c)
        if prev_n is not None and add_rounds >= 2:
            newer = set(model.get(c, [])[prev_n:])
            if exp & newer:
                nontrivial = True
        if len(exp) >= 3:
            nontrivial = True
        queried_contigs_at[c] = len(model.get(c, []))
        if got == exp:
            return
        missing = exp - got
        extra = got - exp
        stale = False
        for snap in history:
            if snap.get((kind, qdesc)) is not None and snap[(kind, qdesc)] == got:
                stale = True
        what = 'missing' if missing and not extra else ('extra' if extra and not missing else 'both')
        sig = '%s:%s:%s%s' % (kind, what, mode, ':round>=2' if add_rounds >= 2 else '')
        out.bad(sig, '%s %s -> got %r expected %r (missing %r extra %r); features on contig: %r' % (
            kind, qdesc, sorted(got, key=repr), sorted(exp, key=repr), sorted(missing, key=repr), sorted(extra, key=repr),
            model.get(c, [])))

    for op in case:
        if out.violations:
            break
        k = op[0]
        try:
            if k == 'add':
                _, c, s, ln, name, strand = op
                add(c, s, s + ln, 'f%d' % name, strand)
            elif k == 'add_nested':
                _, c, s, ln, n, strand = op
                for i in range(n):
                    if ln - 2 * i < 0:
                        break
                    add(c, s + i, s + ln - i, 'n%d_%d' % (s, i), strand)
            elif k == 'dup':
                if all_feats:
                    c, f = all_feats[op[1] % len(all_feats)]
                    add(c, f[0], f[1], f[2], f[3])
            elif k == 'sort':
                fc.sort()
                if added_since_sort:
                    sorts += 1
                added_since_sort = False
                in_add_round = False
            elif k in ('at', 'at_feature'):
                in_add_round = False
                if k == 'at':
                    _, c, x, strand, optim = op
                else:
                    if not all_feats:
                        continue
                    c, f = all_feats[op[1] % len(all_feats)]
                    x = {'start': f[0], 'end': f[1], 'mid': (f[0] + f[1]) // 2}[op[3]] + op[2]
                    strand, optim = op[4], 'bdbnb'
                if optim == 'bdbnb':
                    got = fc.findFeaturesAt(c, x, strand)
                else:
                    got = fc.findFeaturesAt(c, x, strand, optim)
                exp = scan_at(model, c, x, strand)
                judge('at' if optim == 'bdbnb' else 'at[%s]' % optim, got, exp, c, '(%s,%d,%r)' % (c, x, strand))
            elif k in ('between', 'between_feature'):
                in_add_round = False
                if k == 'between':
                    _, c, a, ln, strand = op
                else:
                    if not all_feats:
                        continue
                    c, f = all_feats[op[1] % len(all_feats)]
                    a, ln, strand = max(-20, f[0] + op[2] - op[3] // 2), op[3], op[4]
                got = fc.findFeaturesBetween(c, a, a + ln, strand)
                exp = scan_between(model, c, a, a + ln, strand)
                judge('between', got, exp, c, '(%s,%d,%d,%r)' % (c, a, a + ln, strand))
            elif k in ('read', 'read_gap'):
                in_add_round = False
                if k == 'read_gap':
                    if not all_feats:
                        continue
                    _, fi, a_len, g_len, g_op, b_len, strand, method = op
                    c, f = all_feats[fi % len(all_feats)]
                    pos = f[0] - a_len
                    if pos < 0:
                        continue
                    cig = [('M', a_len), (g_op, g_len), ('M', b_len)]
                else:
                    _, c, pos, cig, strand, method = op
                cig = [tuple(x) for x in cig]
                # normalise the CIGAR: S only at the ends, must contain an M, no leading/trailing D/N/I
                core = [(o, n) for o, n in cig if o != 'S']
                while core and core[0][0] != 'M':
                    core.pop(0)
                while core and core[-1][0] != 'M':
                    core.pop()
                if not core:
                    core = [('M', 5)]
                merged = []
                for o, n in core:
                    if merged and merged[-1][0] == o:
                        merged[-1] = (o, merged[-1][1] + n)
                    else:
                        merged.append((o, n))
                if cig[0][0] == 'S':
                    merged.insert(0, ('S', cig[0][1]))
                if len(cig) > 1 and cig[-1][0] == 'S':
                    merged.append(('S', cig[-1][1]))
                cs = ''.join('%d%s' % (n, o) for o, n in merged)
                a = pysam.AlignedSegment(HEADER)
                a.query_name = 'q'
                qlen = sum(n for o, n in merged if o in 'MIS')
                a.query_sequence = 'A' * qlen
                a.flag = 0
                a.reference_id = HEADER.get_tid(c)
                a.reference_start = pos
                a.mapping_quality = 60
                a.cigarstring = cs
                got = fc.findFeaturesAtPysamAlign(a, strand=strand, method=method)
                exp = set()
                for bs, be in a.get_blocks():
                    exp |= scan_between(model, c, bs, be - 1, strand)
                judge('read[method%d]' % method, got, exp, c, '(%s,%d,%s,%r)' % (c, pos, cs, strand))
        except Exception as e:
            import traceback
            tb = traceback.extract_tb(e.__traceback__)
            inner = [fr for fr in tb if 'singlecellmultiomics' in fr.filename]
            where = '%s:%s' % (inner[-1].name, type(e).__name__) if inner else type(e).__name__
            out.bad('exception:%s:%s' % (k, where), 'op %r raised %r; model %r' % (op, e, model))
    out.nontrivial = nontrivial
    if add_rounds >= 2:
        out.label('>=2 add rounds')
    if sorts >= 2:
        out.label('>=2 effective sorts')
    return out


def parts(tier):
    t = tier == 'thorough'
    return [
        Part('history', eval_history, strategy=lambda: strategy(60), examples=500000 if t else 6000),
        Part('long', eval_history, strategy=lambda: strategy(220), examples=50000 if t else 400),
    ]
