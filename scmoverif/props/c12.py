"""C12 - binned molecule counting is independent of how the genome is split into jobs."""
import os
import io
import contextlib
import collections
from hypothesis import strategies as st
from ..core import Part, Outcome, scratch_dir
from ..common.bamsim import write_bam
from ..common.tagrun import DetPool

ID = 'C12'
LEVEL = 'exploration'
NONTRIVIAL_FLOOR = 0.3
RULE = ('Hypothesis-generated tagged paired-end BAMs (1..3 small contigs, 1..3 cells, DS sites on multiples of '
        'bin_size*bins_per_job, +-1 around them and up to max_fragment_size away from the read, duplicate / qc-fail / '
        'MAPQ / mp / DA tags, some non-proper pairs). Part obtain: obtain_counts(generate_commands(...)) for EVERY '
        'bins_per_job in {1,2,3,5,7,all} with a deterministic pool (drawn completion order) or the real pool, with and '
        'without key tags, compared with a brute-force recount and with each other. Part binned: get_binned_counts '
        '(whole-contig jobs) compared with a recount under its own documented filter. Non-trivial: >=2 non-empty jobs for '
        'some partition and >=1 counted site exactly on a job boundary.')
ASSUMPTIONS = ['the site lies within max_fragment_size of the aligned span of its read (documented meaning of the parameter)',
               'reads are paired-end with exactly one of read1/read2; no unmapped records', 'pysam fetch trusted']


def strategy():
    @st.composite
    def case(draw):
        nc = draw(st.integers(1, 3))
        b = draw(st.sampled_from([10, 25, 50, 100, 250, 500]))
        contigs = [['c%d' % i, draw(st.sampled_from([b * draw(st.integers(2, 12)), b * draw(st.integers(2, 12)) + draw(st.integers(1, b - 1))]))]
                   for i in range(nc)]
        contigs = [[n, max(L, 120)] for n, L in contigs]
        if draw(st.booleans()):
            # one base more than a whole number of jobs: the last base of the contig is a job (and bin) of its own
            contigs[0][1] = b * draw(st.sampled_from([2, 4, 6, 10, 12])) + 1
        maxfrag = draw(st.sampled_from([50, 100, 1000]))
        parts_ = [1, 2, 3, 5, 7, 1000]
        recs = []
        n = draw(st.integers(2, 30))
        for j in range(n):
            tid = draw(st.integers(0, nc - 1))
            L = contigs[tid][1]
            bpj = draw(st.sampled_from([1, 2, 3, 5]))
            step = b * bpj
            kind = draw(st.sampled_from(['boundary', 'boundary', 'pm1', 'any', 'far', 'last', 'zero']))
            if kind == 'boundary':
                site = draw(st.integers(0, max(0, (L - 1) // step))) * step
            elif kind == 'pm1':
                site = draw(st.integers(0, max(0, (L - 1) // step))) * step + draw(st.sampled_from([-1, 1]))
            elif kind == 'last':
                site = L - 1
            elif kind == 'zero':
                site = 0
            else:
                site = draw(st.integers(0, L - 1))
            site = min(max(0, site), L - 1)
            rl = 20
            # read position: at the site, or up to maxfrag-1 away from it (site upstream or downstream of the read)
            side = draw(st.sampled_from(['at', 'at', 'site_upstream', 'site_downstream']))
            dist = draw(st.integers(1, maxfrag - 1)) if kind in ('far', 'zero', 'last') else draw(st.sampled_from([1, 3, min(maxfrag, 40) - 1]))
            if side == 'at':
                pos = site
            elif side == 'site_upstream':
                pos = site + dist
            else:
                pos = site - (rl - 1) - dist
            pos = min(max(0, pos), L - rl)
            gap = (pos - site) if site < pos else (site - (pos + rl - 1) if site > pos + rl - 1 else 0)
            if gap >= maxfrag:
                pos = min(max(0, site), L - rl)
            proper = draw(st.integers(0, 7)) > 0
            f1 = 1 | 64 | (2 if proper else 0)
            f2 = 1 | 128 | (2 if proper else 0)
            rev = draw(st.booleans())
            f1 |= 16 if rev else 32
            f2 |= 32 if rev else 16
            for bit, w in ((1024, 4), (512, 8)):
                if draw(st.integers(0, w - 1)) == 0:
                    f1 |= bit
                    f2 |= bit
            if draw(st.integers(0, 15)) == 0:
                f2 |= 512
            mapq = draw(st.sampled_from([0, 20, 49, 50, 60, 60]))
            tags = {'SM': 'cell%d' % draw(st.integers(0, 2)), 'DS': site}
            if draw(st.integers(0, 3)) == 0:
                tags['mp'] = draw(st.sampled_from(['unique', 'multi', 'multi']))
            if draw(st.booleans()):
                tags['DA'] = draw(st.sampled_from(['a', 'b']))
            p2 = min(L - rl, max(0, pos + draw(st.integers(-30, 30))))
            recs.append({'name': 'p%d' % j, 'flag': f1, 'tid': tid, 'pos': pos, 'mapq': mapq, 'cigar': '%dM' % rl, 'tags': dict(tags), 'mtid': tid, 'mpos': p2})
            recs.append({'name': 'p%d' % j, 'flag': f2, 'tid': tid, 'pos': p2, 'mapq': mapq, 'cigar': '%dM' % rl, 'tags': dict(tags), 'mtid': tid, 'mpos': pos})
        unpaired = []
        for j in range(draw(st.integers(0, 4))):
            tid = draw(st.integers(0, nc - 1))
            L = contigs[tid][1]
            pos = draw(st.integers(0, L - 20))
            unpaired.append({'name': 'u%d' % j, 'flag': draw(st.sampled_from([0, 16])), 'tid': tid, 'pos': pos, 'mapq': 60, 'cigar': '20M',
                             'tags': {'SM': 'cell%d' % draw(st.integers(0, 2)), 'DS': pos}, 'mtid': -1, 'mpos': -1})
        return {'contigs': contigs, 'records': recs, 'unpaired': unpaired, 'bin': b, 'maxfrag': maxfrag, 'min_mq': draw(st.sampled_from([50, 50, 20, 0])),
                'dedup': draw(st.sampled_from([True, True, False])), 'key_tags': draw(st.sampled_from([None, None, ['DA']])),
                'pool': draw(st.sampled_from(['det', 'det', 'det', 'real'])), 'threads': draw(st.integers(1, 4)),
                'order': draw(st.lists(st.integers(0, 1000), min_size=4, max_size=4)),
                'default_kwargs': draw(st.sampled_from([False, False, True])),
                # the documented extra argument of the counting jobs: also count reads whose mp tag says 'multi'
                'ignore_mp': draw(st.sampled_from([None, None, None, True, False])),
                # a list of BAM files counted in one call (bamCopyNumber's usage): the same pairs under other cell names
                'second_cells': draw(st.sampled_from([None, None, None, 'other']))}
    return case()


def recount(case):
    contigs = [tuple(c) for c in case['contigs']]
    b = case['bin']
    exp = {}
    for r in case['records']:
        f = r['flag']
        if not f & 64 or f & 512:
            continue
        if case['dedup'] and f & 1024:
            continue
        if r['tags'].get('mp', 'unique') != 'unique' and not (case.get('ignore_mp') and not case['default_kwargs']):
            continue
        if case['min_mq'] is not None and r['mapq'] < case['min_mq']:
            continue
        cname, L = contigs[r['tid']]
        site = r['tags']['DS']
        bs = (site // b) * b
        key = (cname, bs, min(bs + b, L))
        if case['key_tags']:
            key = tuple(r['tags'].get(t) for t in case['key_tags']) + key
        exp.setdefault(key, {}).setdefault(r['tags']['SM'], 0)
        exp[key][r['tags']['SM']] += 1
    return exp


def flat(counts):
    return {(k, s): n for k, d in counts.items() for s, n in d.items() if n}


def eval_obtain(case):
    import singlecellmultiomics.bamProcessing.bamBinCounts as bc
    out = Outcome()
    contigs = [tuple(c) for c in case['contigs']]
    path = os.path.join(scratch_dir(), 'c12_%d.bam' % os.getpid())
    # records that are neither read 1 nor read 2 are present but are no read-1 records: never counted here
    write_bam(path, contigs, case['records'] + case.get('unpaired', []))
    exp = flat(recount(case))
    inputs = path
    path2 = os.path.join(scratch_dir(), 'c12_%d_second.bam' % os.getpid())
    if case.get('second_cells'):
        recs2 = [dict(r, tags=dict(r['tags'], SM=case['second_cells'] + r['tags']['SM'])) for r in case['records']]
        write_bam(path2, contigs, recs2)
        for k_, v_ in flat(recount(dict(case, records=recs2))).items():
            exp[k_] = exp.get(k_, 0) + v_
        inputs = [path, path2]
    results = {}
    boundary = False
    multi_jobs = False
    saved = bc.multiprocessing.Pool
    try:
        for bpj in (1, 2, 3, 5, 7, 1000):
            if case['pool'] == 'det':
                DetPool.order_seed = case['order']
                bc.multiprocessing.Pool = DetPool
            kw = {} if case['default_kwargs'] else {'kwargs': ({} if case.get('ignore_mp') is None else {'ignore_mp': case['ignore_mp']})}
            try:
                with contextlib.redirect_stdout(io.StringIO()):
                    cmds = list(bc.generate_commands(inputs, bin_size=case['bin'], bins_per_job=bpj, min_mq=case['min_mq'],
                                                     max_fragment_size=case['maxfrag'], key_tags=case['key_tags'], dedup=case['dedup'], **kw))
                    got = bc.obtain_counts(cmds, reference=None, live_update=False, threads=case['threads'])
            except Exception as e:
                import traceback
                tb = [x for x in traceback.extract_tb(e.__traceback__) if 'singlecellmultiomics' in x.filename]
                out.bad('obtain:exception:%s:%s%s' % (type(e).__name__, tb[-1].name if tb else '?', ':default-kwargs' if case['default_kwargs'] else ''),
                        'bins_per_job=%d: %r' % (bpj, e))
                break
            finally:
                bc.multiprocessing.Pool = saved
                DetPool.order_seed = None
            g = flat(got)
            results[bpj] = g
            step = case['bin'] * bpj
            if len({(k[-3], k[-2] // step) for (k, s) in exp}) >= 2:
                multi_jobs = True
            if any(r['flag'] & 64 and r['tags']['DS'] % step == 0 and r['tags']['DS'] > 0 for r in case['records']):
                boundary = True
            if g != exp:
                missing = {k: v for k, v in exp.items() if g.get(k, 0) < v}
                extra = {k: v for k, v in g.items() if exp.get(k, 0) < v}
                k = sorted(missing or extra, key=repr)[0]
                site_on_boundary = any(r['tags']['DS'] % step == 0 for r in case['records'] if r['flag'] & 64)
                out.bad('obtain:%s%s' % ('undercount' if missing and not extra else ('overcount' if extra and not missing else 'miscount'),
                                         ':site-on-job-boundary' if site_on_boundary else ''),
                        'bin_size=%d bins_per_job=%d threads=%d pool=%s maxfrag=%d: cell %r got %r expected %r; total got %d expected %d' % (
                            case['bin'], bpj, case['threads'], case['pool'], case['maxfrag'], k, g.get(k, 0), exp.get(k, 0), sum(g.values()), sum(exp.values())))
                break
        if not out.violations and len({repr(sorted(v.items(), key=repr)) for v in results.values()}) > 1:
            out.bad('obtain:partitions-disagree', 'tables differ between bins_per_job values')
    finally:
        for p in (path, path + '.bai', path2, path2 + '.bai'):
            if os.path.exists(p):
                os.remove(p)
    out.nontrivial = multi_jobs and boundary and bool(exp)
    if case.get('second_cells'):
        out.label('two BAM files in one call')
    out.label('pool=%s' % case['pool'])
    if any(not r['flag'] & 2 for r in case['records']):
        out.label('has non-proper pairs')
    return out


def eval_binned(case):
    import singlecellmultiomics.bamProcessing.bamBinCounts as bc
    out = Outcome()
    contigs = [tuple(c) for c in case['contigs']]
    path = os.path.join(scratch_dir(), 'c12b_%d.bam' % os.getpid())
    write_bam(path, contigs, case['records'])
    b = case['bin']
    exp = {}
    for r in case['records']:
        f = r['flag']
        if not f & 64 or f & 512 or f & 1024:
            continue
        key = (contigs[r['tid']][0], (r['tags']['DS'] // b) * b)
        exp[(key, r['tags']['SM'])] = exp.get((key, r['tags']['SM']), 0) + 1
    saved = bc.multiprocessing.Pool
    try:
        if case['pool'] == 'det':
            bc.multiprocessing.Pool = DetPool
        try:
            with contextlib.redirect_stdout(io.StringIO()):
                df = bc.get_binned_counts([path], b, n_threads=case['threads'])
        except Exception as e:
            return out.bad('binned:exception:%s' % type(e).__name__, repr(e))
        finally:
            bc.multiprocessing.Pool = saved
    finally:
        for p in (path, path + '.bai'):
            if os.path.exists(p):
                os.remove(p)
    got = {}
    if df.shape[0] and df.shape[1]:
        for idx, row in df.iterrows():
            for s, v in row.items():
                if v == v and v:
                    got[((idx[0], int(idx[1])), s)] = int(v)
    nonproper = any(not r['flag'] & 2 for r in case['records'])
    if got != exp:
        k = sorted(set(got.items()) ^ set(exp.items()), key=repr)[0][0]
        # is the differing cell one a non-proper pair contributes to?
        np_cells = {((contigs[r['tid']][0], (r['tags']['DS'] // b) * b), r['tags']['SM']) for r in case['records'] if not r['flag'] & 2}
        out.bad('binned:%s%s' % ('overcount' if got.get(k, 0) > exp.get(k, 0) else 'undercount', ':non-proper-pair' if k in np_cells else ''),
                'bin_size=%d: cell %r got %r expected %r; total got %d expected %d' % (b, k, got.get(k, 0), exp.get(k, 0), sum(got.values()), sum(exp.values())))
    out.nontrivial = len({k[0][0] for k in exp}) >= 1 and len(exp) >= 2
    if nonproper:
        out.label('has non-proper pairs')
    return out


def parts(tier):
    t = tier == 'thorough'
    return [
        Part('obtain', eval_obtain, strategy=strategy, examples=24000 if t else 1200),
        Part('binned', eval_binned, strategy=strategy, examples=24000 if t else 1200),
    ]
