"""C05 - tagging conserves alignment records: every input record appears exactly once."""
import os
import shutil
import collections
import pysam
from hypothesis import strategies as st
from ..core import Part, Outcome, scratch_dir
from ..common import libsim, tagrun
from ..common.bamsim import write_bam

ID = 'C05'
LEVEL = 'exploration'
NONTRIVIAL_FLOOR = 0.3
RULE = ('Hypothesis-generated libraries from the simulator (1..12 contigs in random header order with lengths on both '
        'sides of the 100 kb small-contig threshold, empty contigs, valid NlaIII/scCHIC fragments with PCR copies, '
        'unmapped pairs, half-mapped pairs, orphans, cross-contig pairs, fragments without motif; demultiplexer-style '
        'read names or pre-tagged reads) written as sorted indexed BAM and run through run_multiome_tagging_cmd with '
        'method nla/chic/qflag, single process or --multiprocess (deterministic pool with a drawn completion order, or '
        'the real pool with 1..4 workers), with and without --no_rejects. Oracle: multiset equality of '
        '(name, mate, seq, qual, contig, pos, cigar, unmapped bit) between input and output, sort order, index, '
        'RG tags declared in the header. Non-trivial: multiprocess case with >=1 large and >=1 small contig carrying '
        'reads, or a case with unmapped / half-mapped / orphan reads.')
ASSUMPTIONS = ['pysam/htslib (sort, merge, index) trusted', 'secondary/supplementary records are not generated (outside the claim)',
               'flags other than the unmapped bit may change (duplicate, qc-fail, pairing bits of orphans)',
               'with demultiplexer-style names the output name is the Illumina coordinate string (C04)']


def strategy(multi_bias=True):
    @st.composite
    def case(draw):
        spec = draw(libsim.spec_strategy(max_contigs=12 if draw(st.integers(0, 3)) == 0 else 5, max_mols=12))
        method = draw(st.sampled_from(['nla', 'chic', 'qflag'])) if spec['method'] == 'nla' else draw(st.sampled_from(['chic', 'qflag']))
        mode = draw(st.sampled_from(['single', 'multi', 'multi']))
        run = {'method': method, 'mode': mode, 'no_rejects': draw(st.sampled_from([False, False, True])),
               'eject_every': draw(st.sampled_from([None, None, 0, 0, 1, 2, 3, 7])),
               'index_state': draw(st.sampled_from(['fresh', 'fresh', 'fresh', 'missing', 'older', 'older_same_second'])),
               # the aligner's own read group tag on the input records (bwa mem -R), or that of an earlier tagging run
               'input_rg': draw(st.sampled_from([None, None, None, 'bwa_lib1', 'FLOWCELL.1.simlib_1']))}
        if draw(st.integers(0, 4)) == 0:
            names = [c[0] for c in spec['contigs']]
            run['skip_contig'] = draw(st.lists(st.sampled_from(names), min_size=1, max_size=2, unique=True))
        if mode == 'multi':
            run['pool'] = draw(st.sampled_from(['det', 'det', 'det', 'real']))
            run['threads'] = draw(st.integers(1, 4))
            run['order'] = draw(st.lists(st.integers(0, 1000), min_size=4, max_size=4))
        return {'spec': spec, 'run': run}
    return case()


PAIRED_CLASSES = ('valid', 'valid_extra', 'nomotif')


def rec_key(r, name=None, cls_by_name=None):
    name = name or r.query_name
    # mate number is compared only where the mate-pairing library keeps the two records together (co-located pairs);
    # half-mapped, cross-contig and orphan reads are un-paired by pysamiterators.verify_pair(apply_fixes=True)
    mate = tagrun.mate_of(r) if (cls_by_name is None or cls_by_name.get(name) in PAIRED_CLASSES) else '?'
    if mate == '*' and cls_by_name is not None and cls_by_name.get(name) == 'unmapped':
        mate = '?'
    return (name, mate, r.query_sequence, r.qual, r.reference_name if r.reference_id >= 0 else None,
            r.reference_start if r.reference_id >= 0 else -1, r.cigarstring, bool(r.is_unmapped))


def run_case(case, keep=False):
    """Writes the input, runs the tagger; returns dict(input=[records], output=[records] or None, error, status, paths)."""
    spec, run = case['spec'], case['run']
    contigs, records, truth = libsim.realize(spec)
    d = os.path.join(scratch_dir(), 'c05_%d' % os.getpid())
    shutil.rmtree(d, ignore_errors=True)
    os.makedirs(d)
    bam_in = os.path.join(d, 'in.bam')
    bam_out = os.path.join(d, 'out.bam')
    if run.get('input_rg'):
        for r in records:
            r.setdefault('tags', {})['RG'] = run['input_rg']
    write_bam(bam_in, contigs, records)
    ist = run.get('index_state', 'fresh')
    if ist == 'missing':
        os.remove(bam_in + '.bai')
    elif ist in ('older', 'older_same_second'):
        # the file was replaced after it had been indexed: the index on disk describes the previous content and is older
        write_bam(bam_in, contigs, [r for i, r in enumerate(records) if i % 3 == 0][:max(1, len(records) // 4)])
        write_bam(bam_in + '.new.bam', contigs, records, index=False)
        os.replace(bam_in + '.new.bam', bam_in)
        t0 = 1700000000
        os.utime(bam_in + '.bai', (t0 + 0.25, t0 + 0.25) if ist == 'older_same_second' else (t0 - 500, t0 - 500))
        os.utime(bam_in, (t0 + 0.75, t0 + 0.75))
    extra = ['--no_rejects'] if run.get('no_rejects') else []
    extra += run.get('extra', [])
    if run.get('skip_contig'):
        extra += ['-skip_contig', ','.join(run['skip_contig'])]
    err = None
    try:
        tagrun.run_tagger(bam_in, bam_out, run['method'], multiprocess=run['mode'] == 'multi', threads=run.get('threads', 1),
                          pool=run.get('pool', 'det'), order=run.get('order'), extra=extra, eject_every=run.get('eject_every'))
    except BaseException as e:       # SystemExit from argparse etc. is also a failure of the run
        import traceback
        tb = [x for x in traceback.extract_tb(e.__traceback__) if 'singlecellmultiomics' in x.filename or 'pysamiterators' in x.filename]
        err = (type(e).__name__, tb[-1].name if tb else '?', repr(e)[:300])
    return {'dir': d, 'in': bam_in, 'out': bam_out, 'error': err, 'truth': truth, 'contigs': contigs, 'records': records,
            'status': tagrun.status_text(bam_out)}


def contig_class(contigs, name):
    if name is None:
        return '*'
    ln = dict(contigs)[name]
    return 'small' if ln < 100000 else 'large'


def compare(case, res, out):
    spec, run = case['spec'], case['run']
    truth = res['truth']
    contigs = res['contigs']
    mode = run['mode']
    inp = tagrun.read_records(res['in'])
    name_map = {}
    if spec['naming'] == 'encoded':
        for r in inp:
            # serial is in CX
            serial = int(r.query_name.split('CX:')[1].split(';')[0])
            name_map[r.query_name] = truth[serial]['outname']
    cls_by_name = {t['outname']: t['cls'] for t in truth.values()}
    want = collections.Counter(rec_key(r, name_map.get(r.query_name), cls_by_name) for r in inp)
    if run.get('no_rejects'):
        # only unambiguous invalid classes are removed from the expectation; ambiguous classes are not compared
        by_serial = {}
        for r in inp:
            s = int(r.query_name.split('CX:')[1].split(';')[0]) if spec['naming'] == 'encoded' else int(r.query_name[4:])
            by_serial.setdefault(s, []).append(r)
        want = collections.Counter()
        ambiguous = set()
        for s, rs in by_serial.items():
            cls = truth[s]['cls']
            if cls in ('valid', 'valid_extra') or (cls == 'nomotif' and run['method'] == 'chic'):
                for r in rs:
                    want[rec_key(r, name_map.get(r.query_name), cls_by_name)] += 1
            elif cls in ('nomotif', 'unmapped') and run['method'] != 'qflag':
                pass    # must be removed
            else:
                for r in rs:
                    ambiguous.add(rec_key(r, name_map.get(r.query_name), cls_by_name)[0])
    if run.get('skip_contig'):
        # documented: 'Contigs not to process' - records placed on such a contig are not written
        want = collections.Counter({k: v for k, v in want.items() if k[4] not in run['skip_contig']})
    if not os.path.exists(res['out']):
        if sum(want.values()) == 0:
            return
        out.bad('%s:no-output-file' % mode, 'status %r' % res['status'])
        return
    try:
        outp = tagrun.read_records(res['out'])
    except Exception as e:
        out.bad('%s:output-unreadable' % mode, repr(e))
        return
    got = collections.Counter(rec_key(r, None, cls_by_name) for r in outp if not r.is_secondary and not r.is_supplementary)
    if run.get('no_rejects'):
        got = collections.Counter({k: v for k, v in got.items() if k[0] not in ambiguous})
        if run['method'] == 'qflag':
            return   # qflag keeps everything by design; --no_rejects semantics not claimed there
    missing = want - got
    extra = got - want
    if missing or extra:
        def cls_of(k):
            return contig_class(contigs, k[4])
        if missing:
            k = sorted(missing, key=repr)[0]
            out.bad('%s:missing:%s%s' % (mode, cls_of(k), ':no_rejects' if run.get('no_rejects') else ''),
                    '%d records missing (e.g. %r), %d extra; contigs %r; status %r; run %r' % (
                        sum(missing.values()), k[:2] + k[4:], sum(extra.values()), contigs, res['status'], run))
        if extra:
            k = sorted(extra, key=repr)[0]
            dup = any(want[k2] > 0 for k2 in extra)
            out.bad('%s:%s:%s%s' % (mode, 'duplicated' if dup else 'extra', cls_of(k), ':no_rejects' if run.get('no_rejects') else ''),
                    '%d records extra (e.g. %r), %d missing; contigs %r; status %r; run %r' % (
                        sum(extra.values()), k[:2] + k[4:], sum(missing.values()), contigs, res['status'], run))
    # sort order + index + read groups
    last = None
    with pysam.AlignmentFile(res['out']) as f:
        rgs = {rg['ID'] for rg in f.header.to_dict().get('RG', [])}
        so = f.header.to_dict().get('HD', {}).get('SO')
        for r in f.fetch(until_eof=True):
            key = (r.reference_id if r.reference_id >= 0 else 1 << 30, r.reference_start)
            if last is not None and key < last:
                out.bad('%s:not-coordinate-sorted' % mode, 'record %s at %r after %r' % (r.query_name, key, last))
                break
            last = key
        for r in outp:
            if not r.has_tag('RG'):
                out.bad('%s:record-without-RG' % mode, 'record %s %s' % (r.query_name, tagrun.mate_of(r)))
                break
            if r.get_tag('RG') not in rgs:
                out.bad('%s:RG-not-in-header' % mode, 'RG %r not in %r' % (r.get_tag('RG'), sorted(rgs)))
                break
        if len(outp) and so != 'coordinate':
            out.bad('%s:header-not-SO-coordinate' % mode, 'SO=%r' % so)
        try:
            if not f.check_index():
                out.bad('%s:no-index' % mode, '')
        except Exception as e:
            out.bad('%s:no-index' % mode, repr(e))


def eval_case(case):
    out = Outcome()
    res = run_case(case)
    try:
        spec, run = case['spec'], case['run']
        classes = {t['cls'] for t in res['truth'].values()}
        used = {r['tid'] for r in res['records'] if r.get('tid', -1) >= 0}
        has_small = any(res['contigs'][t][1] < 100000 for t in used)
        has_large = any(res['contigs'][t][1] >= 100000 for t in used)
        odd = bool(classes & {'unmapped', 'halfmapped_r1', 'halfmapped_r2', 'orphan', 'cross_contig'})
        out.nontrivial = (run['mode'] == 'multi' and has_small and has_large) or odd
        out.label('mode=%s' % run['mode'], 'method=%s' % run['method'])
        if run['mode'] == 'multi':
            out.label('pool=%s' % run['pool'])
        if res['error']:
            out.bad('%s:exception:%s:%s' % (run['mode'], res['error'][0], res['error'][1]),
                    '%s; classes %r; run %r; contigs %r' % (res['error'][2], sorted(classes), run, res['contigs']))
        else:
            compare(case, res, out)
    finally:
        shutil.rmtree(res['dir'], ignore_errors=True)
    return out


def parts(tier):
    t = tier == 'thorough'
    return [Part('libraries', eval_case, strategy=strategy, examples=60000 if t else 1600)]
