"""C10 - binned count tables: each counted read lands in exactly the bins containing it."""
import os
import io
import contextlib
from hypothesis import strategies as st
from ..core import Part, Outcome, scratch_dir
from ..common import counttable as ct
from ..common.bamsim import write_bam

ID = 'C10'
LEVEL = 'exploration'
NONTRIVIAL_FLOOR = 0.3
RULE = ('part enum: every (copy, b, s) with b in 1..40 (thorough 1..70), s in 1..b, both copies of '
        'coordinate_to_bins; each case evaluates ALL x in 0..3b+5 against integer interval arithmetic '
        '(exhaustive over that finite domain). part large: Hypothesis points with x up to 3e9. part table: '
        'synthetic tagged BAMs through create_count_table(return_df=True) with -bin/-sliding/--keepOverBounds/'
        '-binTag/joined features, compared with an independent recount. Non-trivial: s<b, or x a multiple of s '
        'or b, x=0 or x=contig end-1 (table part: at least one counted read whose coordinate is such a boundary).')
ASSUMPTIONS = ['coordinates are non-negative integers, 1 <= s <= b',
               'pysam/htslib and pandas are trusted', 'bin tag values are integers (as DS is)']

COPIES = ('bamToCountTable', 'binning')


def _fn(copy):
    if copy == 'bamToCountTable':
        from singlecellmultiomics.bamProcessing.bamToCountTable import coordinate_to_bins
    else:
        from singlecellmultiomics.utils.binning import coordinate_to_bins
    return coordinate_to_bins


def _classify(x, b, s, got, exp):
    got_l = [tuple(int(v) for v in w) for w in got]
    if got_l == exp:
        return None
    extra = [w for w in got_l if w not in exp]
    missing = [w for w in exp if w not in got_l]
    if len(got_l) != len(set(got_l)):
        return 'duplicate-window'
    if extra and all(w[1] == x for w in extra) and not missing:
        return 'extra-window-ending-at-x'
    if extra and all(w[0] > x or w[1] <= x for w in extra) and not missing:
        return 'extra-window-not-containing-x'
    if missing and not extra:
        return 'missing-window'
    if not extra and not missing:
        return 'order'
    return 'wrong-windows'


def eval_enum(case):
    copy, b, s = case
    f = _fn(copy)
    out = Outcome(nontrivial=True, labels=['points:%d' % (3 * b + 6)])
    for x in range(0, 3 * b + 6):
        exp = ct.windows(x, b, s)
        try:
            got = f(x, b, s)
        except Exception as e:
            out.bad('%s:exception:%s' % (copy, type(e).__name__), 'coordinate_to_bins(%d,%d,%d) raised %r' % (x, b, s, e))
            break
        kind = _classify(x, b, s, got, exp)
        if kind:
            out.bad('%s:%s' % (copy, kind), 'coordinate_to_bins(%d,%d,%d) = %r, expected %r' % (x, b, s, list(got), exp))
            break
    return out


def enum_cases(maxb):
    def gen():
        for copy in COPIES:
            for b in range(1, maxb + 1):
                for s in range(1, b + 1):
                    yield [copy, b, s]
    return gen


def large_strategy():
    @st.composite
    def case(draw):
        copy = draw(st.sampled_from(COPIES))
        b = draw(st.one_of(st.integers(1, 2000), st.sampled_from([1000, 5000, 100000, 250000, 1000000, 5000000])))
        s = draw(st.one_of(st.just(b), st.integers(1, b), st.sampled_from([1, max(1, b // 2), max(1, b // 4), max(1, b // 10)])))
        s = min(s, b)
        k = draw(st.integers(0, 3_000_000_000 // s))
        kind = draw(st.sampled_from(['mult_s', 'mult_b', 'any', 'pm1']))
        if kind == 'mult_s':
            x = k * s
        elif kind == 'mult_b':
            x = (k * s // b) * b
        elif kind == 'pm1':
            x = max(0, k * s + draw(st.sampled_from([-1, 1])))
        else:
            x = draw(st.integers(0, 3_000_000_000))
        return [copy, b, s, x]
    return case()


def eval_large(case):
    copy, b, s, x = case
    f = _fn(copy)
    out = Outcome()
    out.nontrivial = (s < b) or x % s == 0 or x % b == 0
    if x % s == 0:
        out.label('x multiple of s')
    if s < b:
        out.label('sliding')
    exp = ct.windows(x, b, s)
    if len(exp) > 5000:
        return out.label('skipped: too many windows')
    try:
        got = f(x, b, s)
    except Exception as e:
        return out.bad('%s:exception:%s' % (copy, type(e).__name__), 'coordinate_to_bins(%d,%d,%d) raised %r' % (x, b, s, e))
    kind = _classify(x, b, s, got, exp)
    if kind:
        out.bad('%s:%s' % (copy, kind), 'coordinate_to_bins(%d,%d,%d) = %r..., expected %r...' % (x, b, s, list(got)[:4], exp[:4]))
    return out


# ------------------------------------------------------------------ table part

def table_strategy():
    @st.composite
    def case(draw):
        ncont = draw(st.integers(1, 3))
        b = draw(st.one_of(st.integers(1, 60), st.integers(1, 60), st.integers(61, 250), st.sampled_from([49, 98, 103, 107, 161, 196])))
        s = draw(st.one_of(st.none(), st.integers(1, b)))
        contigs = []
        for i in range(ncont):
            mult = draw(st.integers(1, 8))
            extra = draw(st.sampled_from([0, 0, 1, b - 1, draw(st.integers(0, b))]))
            contigs.append(['ctg%d' % i, max(12, mult * b + extra)])
        bin_tag = draw(st.sampled_from(['DS', 'DS', 'XS', 'reference_start']))     # a SAM tag or a read attribute
        n = draw(st.integers(1, 25))
        recs = []
        for j in range(n):
            tid = draw(st.integers(0, ncont - 1))
            clen = contigs[tid][1]
            qlen = draw(st.integers(1, 10))
            pos = draw(st.integers(0, clen - qlen))
            step = s or b
            kind = draw(st.sampled_from(['mult_b', 'mult_s', 'zero', 'end', 'any', 'pm1', 'none']))
            if kind == 'mult_b':
                v = draw(st.integers(0, clen // b)) * b
            elif kind == 'mult_s':
                v = draw(st.integers(0, clen // step)) * step
            elif kind == 'zero':
                v = 0
            elif kind == 'end':
                v = clen - 1
            elif kind == 'pm1':
                v = max(0, draw(st.integers(0, clen // step)) * step + draw(st.sampled_from([-1, 1])))
            else:
                v = draw(st.integers(0, clen - 1))
            v = min(v, clen - 1)
            paired = draw(st.booleans())
            flag = 0
            if paired:
                flag |= 1 | draw(st.sampled_from([64, 128]))
                if draw(st.integers(0, 4)) == 0:
                    flag |= 8
            if draw(st.integers(0, 9)) == 0:
                flag |= 512
            if draw(st.integers(0, 5)) == 0:
                flag |= 16
            tags = {'SM': 'cell%d' % draw(st.integers(0, 2))}
            if bin_tag == 'reference_start':
                pos = min(v, clen - qlen)
            elif kind != 'none':
                tags[bin_tag] = v
            if draw(st.booleans()):
                tags['DA'] = draw(st.sampled_from(['a', 'b']))
            recs.append({'name': 'r%d' % j, 'flag': flag, 'tid': tid, 'pos': pos, 'mapq': draw(st.sampled_from([0, 20, 60])),
                         'cigar': '%dM' % qlen, 'tags': tags,
                         'mtid': tid if paired and not flag & 8 else -1, 'mpos': pos if paired and not flag & 8 else -1})
        opts = {'bin': b, 'sliding': s, 'binTag': bin_tag,
                'keepOverBounds': draw(st.booleans()),
                'joinedFeatureTags': draw(st.sampled_from(['chrom', 'chrom', 'chrom,DA', bin_tag, 'chrom,%s' % bin_tag])),
                'doNotDivideFragments': draw(st.booleans())}
        second = None
        if draw(st.integers(0, 3)) == 0:
            # a second BAM counted in the same call: same contig names, other lengths, sometimes an extra contig
            c2 = [[n, max(12, L + draw(st.sampled_from([-b, 0, b, 2 * b, -(L // 2)])))] for n, L in contigs]
            if draw(st.booleans()):
                c2.append(['spike', 3 * b + 7])
            r2 = []
            for j in range(draw(st.integers(1, 10))):
                tid = draw(st.integers(0, len(c2) - 1))
                clen = c2[tid][1]
                v = draw(st.sampled_from([0, clen - 1, draw(st.integers(0, clen - 1)), (clen // b) * b]))
                v = min(max(0, v), clen - 1)
                p2 = draw(st.integers(0, clen - 10))
                t2 = {'SM': 'cell%d' % draw(st.integers(0, 2))}
                if bin_tag == 'reference_start':
                    p2 = min(v, clen - 5)
                else:
                    t2[bin_tag] = v
                r2.append({'name': 's%d' % j, 'flag': 0, 'tid': tid, 'pos': p2, 'mapq': 60, 'cigar': '5M', 'tags': t2, 'mtid': -1, 'mpos': -1})
            second = {'contigs': c2, 'records': r2}
        return {'contigs': contigs, 'records': recs, 'opts': opts, 'second': second}
    return case()


def eval_table(case):
    from singlecellmultiomics.bamProcessing.bamToCountTable import create_count_table
    contigs = [tuple(c) for c in case['contigs']]
    recs = case['records']
    o = dict(case['opts'])
    b = o['bin']
    s = o['sliding'] or b
    out = Outcome()
    path = os.path.join(scratch_dir(), 'c10_%d.bam' % os.getpid())
    path2 = os.path.join(scratch_dir(), 'c10_%d_second.bam' % os.getpid())
    write_bam(path, contigs, recs)
    second = case.get('second')
    try:
        exp = ct.recount(contigs, recs, o)
        args = ct.make_args(path, o)
        if second:
            # every file is counted against its own contig lengths
            c2 = [tuple(c) for c in second['contigs']]
            write_bam(path2, c2, second['records'])
            args.alignmentfiles = [path, path2]
            for k, v in ct.recount(c2, second['records'], o).items():
                exp[k] = exp.get(k, 0) + v
            out.label('two BAM files with different headers')
        with contextlib.redirect_stdout(io.StringIO()):
            df = create_count_table(args, return_df=True)
        got = ct.df_to_dict(df)
    except Exception as e:
        return out.bad('table:exception:%s%s' % (type(e).__name__, ':two-files' if second else ''), 'create_count_table raised %r for opts %r' % (e, o))
    finally:
        for p in (path, path + '.bai', path2, path2 + '.bai'):
            if os.path.exists(p):
                os.remove(p)
    bt = o['binTag']
    boundary = False
    for r in recs:
        if ct.passes_filters(r, o) and ct.read_value(r, bt, contigs) is not None:
            v = ct.read_value(r, bt, contigs)
            if v % b == 0 or v % s == 0 or v == 0 or v == contigs[r['tid']][1] - 1:
                boundary = True
    out.nontrivial = boundary and len(exp) > 0
    if s < b:
        out.label('sliding')
    if o['keepOverBounds']:
        out.label('keepOverBounds')
    diffs = ct.compare_tables(got, exp)
    if diffs:
        kind, key, g, e = diffs[0]
        # sub-classify "extra" bins: is it the window ending exactly at the coordinate?
        sub = kind
        if kind == 'extra':
            end = key[1][-1]
            vals = {ct.read_value(r, bt, contigs) for r in recs}
            sub = 'extra-window-ending-at-x' if end in vals else 'extra'
        out.bad('table:%s%s' % (sub, ':two-files' if second else ''), 'opts %r: cell %r got %r expected %r (%d differing cells; total got %.3f expected %.3f)' % (
            o, key, g, e, len(diffs), sum(got.values()), sum(exp.values())))
    return out


def parts(tier):
    thorough = tier == 'thorough'
    return [
        Part('enum', eval_enum, cases=enum_cases(70 if thorough else 40), exhaustive=True),
        Part('large', eval_large, strategy=large_strategy, examples=100000 if thorough else 4000),
        Part('table', eval_table, strategy=table_strategy, examples=10000 if thorough else 320),
    ]
