"""C15 - consensus pseudo-reads are well-formed and span exactly the molecule coverage."""
import os
import re
import shutil
import random
import pysam
from hypothesis import strategies as st
from ..core import Part, Outcome, scratch_dir
from ..common.fragsim import header, mk_read, md_tag, aligned_pairs, ref_len, cigar_ops
from ..common import libsim, tagrun
from ..common.bamsim import write_bam

ID = 'C15'
LEVEL = 'exploration'
NONTRIVIAL_FLOOR = 0.1
RULE = ('Part api: Hypothesis-generated NlaIII / scCHIC molecules on a random reference (1..6 fragments anchored at one '
        'cut site, forward or reverse, optional R2 at a drawn distance so that coverage has small and large gaps, '
        'insertions / deletions / soft clips, sequencing errors and conflicting bases with equal or unequal qualities, BC '
        'tags); Molecule.deduplicate_majority(max_N_span in {None, 0, 5, 50}) and write_pysam(consensus=True) are checked '
        'with a validity predicate: aligned blocks = covered positions, lengths of sequence / qualities / CIGAR agree, '
        'the reference reconstructed from (sequence, CIGAR, MD) equals the true reference, decidable base calls, gaps '
        'inside a record <= max_N_span, tags SM RX DS TF. Part deep: molecules of 31..70 single-read fragments with one or two discordant observations at planted positions (likelihood arithmetic at 32 and more observations). Part cli: simulated libraries through --consensus '
        '--multiprocess with a reference FASTA. Non-trivial: molecule with >=1 coverage gap and >=1 conflicting position.')
ASSUMPTIONS = ['base calls are asserted only where every observation has phred >= 20: unanimous -> that base; two bases '
               'with the same number of observations all at one identical quality -> N; a base with more observations, each '
               'at least as good as every observation of the others -> that base (any number of different bases)', 'pysam accepts/round-trips the records (trusted)']

CONTIG = 'chrC'


def strategy(deep=False):
    @st.composite
    def case(draw):
        L = draw(st.integers(320, 700))
        ref = ''.join(draw(st.lists(st.sampled_from('ACGT'), min_size=L, max_size=L)))
        method = draw(st.sampled_from(['nla', 'chic']))
        rev = draw(st.booleans())
        site = draw(st.integers(60, L - 150)) if not rev else draw(st.integers(150, L - 60))
        if method == 'nla':
            ref = ref[:site] + 'CATG' + ref[site + 4:]
        nf = draw(st.sampled_from([1, 1, 2, 3, 4, 6])) if not deep else draw(st.sampled_from([31, 32, 33, 34, 48, 64, 70]))
        frags = []
        errseed = draw(st.integers(0, 10 ** 6))
        conflict_q = draw(st.sampled_from(['equal', 'unequal', 'none']))
        for i in range(nf):
            l1 = draw(st.integers(15, 45))
            cig1 = draw(st.sampled_from(['M', 'M', 'M', 'I', 'D', 'S']))
            r2 = draw(st.sampled_from(['none', 'near', 'near', 'far', 'overlap', 'nested']))
            gap = {'near': draw(st.integers(1, 8)), 'far': draw(st.integers(20, 90)), 'overlap': -draw(st.integers(1, 10)), 'none': 0, 'nested': 0}[r2]
            frags.append({'l1': l1, 'cig1': cig1, 'r2': r2, 'gap': gap, 'l2': draw(st.integers(15, 40)),
                          'q': draw(st.sampled_from([20, 30, 30, 40]))})
            if deep:
                frags[-1].update(cig1='M', r2='none', gap=0, q=30)
        # planted conflicts: at up to 3 positions near the cut every fragment shows a drawn base at a drawn quality
        # (three different bases, losers before the winner, equal counts ...)
        plant = {}
        for j in draw(st.lists(st.integers(0, 4), max_size=3, unique=True)):
            pos = site + 5 + j if not rev else site - 5 - j
            kind = draw(st.sampled_from(['losers_first', 'random', 'tie'])) if not deep else 'deep'
            if kind == 'deep':
                x, y = draw(st.permutations('ACGT'))[:2]
                bases = [x] * nf
                for k_ in draw(st.lists(st.integers(0, nf - 1), min_size=1, max_size=2, unique=True)):
                    bases[k_] = y
                plant[str(pos)] = [bases, [30] * nf]
                continue
            if kind == 'losers_first':
                x, y, z = draw(st.permutations('ACGT'))[:3]
                bases = [x, y] + [z] * max(1, nf - 2)
                quals = [draw(st.sampled_from([20, 30]))] * 2 + [40] * max(1, nf - 2)
            elif kind == 'tie':
                x, y = draw(st.permutations('ACGT'))[:2]
                bases = [x, y] * nf
                quals = [30] * (2 * nf)
            else:
                bases = draw(st.lists(st.sampled_from('ACGT'), min_size=nf, max_size=nf))
                quals = draw(st.lists(st.sampled_from([20, 30, 40]), min_size=nf, max_size=nf))
            plant[str(pos)] = [bases[:nf], quals[:nf]]
        umi_errors = draw(st.lists(st.booleans(), min_size=nf, max_size=nf)) if (not deep and draw(st.integers(0, 3)) == 0) else []
        mask = None
        if draw(st.integers(0, 3)) == 0:
            mask = [max(0, site - draw(st.integers(0, 60))), draw(st.integers(5, 150))]
        return {'umi_errors': umi_errors, 'mask': mask, 'ref': ref, 'method': method, 'rev': rev, 'site': site, 'frags': frags, 'errseed': errseed, 'plant': plant,
                'conflict': conflict_q, 'max_N_span': draw(st.sampled_from([None, None, 0, 5, 50])),
                'entry': draw(st.sampled_from(['deduplicate_majority', 'deduplicate_majority', 'write_pysam'])),
                # history: a consensus is requested when only the first k fragments are associated, then the molecule grows
                'early_request': draw(st.sampled_from([None, None, None, 1, 2])),
                # a cap on the fragments per molecule: later fragments are counted in TF but do not contribute coverage
                'cap': draw(st.sampled_from([None, None, None, 1, 2]))}
    return case()


def build(case):
    """plain read descriptions (pos, cigar, seq, qual list, reverse, mate) for every fragment"""
    ref, L = case['ref'], len(case['ref'])
    rng = random.Random(case['errseed'])
    rev = case['rev']
    site = case['site']
    out = []
    conflict_pos = None
    for fi, f in enumerate(case['frags']):
        l1 = f['l1']
        if case['method'] == 'nla':
            s1 = site if not rev else site + 4 - l1
        else:
            s1 = site + 1 if not rev else site - l1
        s1 = max(0, min(L - l1 - 5, s1))
        # cigar for R1 (the site side stays plain M so that the site is identical for all copies)
        k = f['cig1']
        if k == 'M' or l1 < 20:
            ops = [('M', l1)]
        elif k == 'I':
            ops = [('M', 10), ('I', 2), ('M', l1 - 10)] if not rev else [('M', l1 - 10), ('I', 2), ('M', 10)]
        elif k == 'D':
            ops = [('M', 10), ('D', 2), ('M', l1 - 12)] if not rev else [('M', l1 - 12), ('D', 2), ('M', 10)]
        else:
            ops = [('M', l1), ('S', 3)] if not rev else [('S', 3), ('M', l1)]
        reads = []
        r1 = mkseq(ref, s1, ops, rng, f['q'], case, fi, protect=(site, site + 4) if case['method'] == 'nla' else None)
        reads.append(dict(r1, reverse=rev, read2=False))
        if f['r2'] != 'none':
            e1 = s1 + sum(n for o, n in ops if o in 'MD')
            l2 = f['l2']
            if f['r2'] == 'nested':
                # a (trimmed) R2 lying entirely inside R1
                l2 = max(5, min(l2, (e1 - s1) - 6))
                s2 = s1 + 3
            elif not rev:
                s2 = e1 + f['gap']
            else:
                s2 = s1 - f['gap'] - l2
            s2 = max(0, min(L - l2 - 1, s2))
            r2 = mkseq(ref, s2, [('M', l2)], rng, f['q'], case, fi, protect=None)
            reads.append(dict(r2, reverse=not rev, read2=True))
        out.append(reads)
    return out


def mkseq(ref, start, ops, rng, q, case, fi, protect):
    seq, qual = [], []
    r = start
    for o, n in ops:
        if o == 'M':
            for i in range(n):
                b = ref[r + i]
                if protect is None or not (protect[0] <= r + i < protect[1]):
                    x = rng.random()
                    if x < 0.04:
                        b = rng.choice([c for c in 'ACGT' if c != b])
                    elif x < 0.05:
                        b = 'N'
                qq = q
                if case['conflict'] == 'unequal' and rng.random() < 0.3:
                    qq = rng.choice([20, 30, 40])
                pl = (case.get('plant') or {}).get(str(r + i))
                if pl and (protect is None or not (protect[0] <= r + i < protect[1])):
                    b, qq = pl[0][fi % len(pl[0])], pl[1][fi % len(pl[1])]
                seq.append(b)
                qual.append(qq)
            r += n
        elif o in 'IS':
            seq.extend(rng.choice('ACGT') for _ in range(n))
            qual.extend([q] * n)
        elif o == 'D':
            r += n
    cigar = ''.join('%d%s' % (n, o) for o, n in ops)
    return {'pos': start, 'cigar': cigar, 'seq': ''.join(seq), 'qual': qual}


class Collector:
    def __init__(self, h):
        self.header = h
        self.records = []

    def write(self, r):
        self.records.append(r)


MD_RE = re.compile(r'(\d+)|(\^[A-Za-z]+)|([A-Za-z])')


def reference_from_md(rec):
    """pos -> reference base reconstructed from (sequence, CIGAR, MD) by an independent MD parser; None if inconsistent"""
    md = rec.get_tag('MD') if rec.has_tag('MD') else None
    if md is None:
        return None, 'no MD tag'
    toks = []
    for m in MD_RE.finditer(md):
        if m.group(1) is not None:
            toks.append(('=', int(m.group(1))))
        elif m.group(2) is not None:
            toks.append(('^', m.group(2)[1:]))
        else:
            toks.append(('X', m.group(3)))
    seq = rec.query_sequence
    res = {}
    qi = 0
    rp = rec.reference_start
    ti = 0
    left = toks[0][1] if toks and toks[0][0] == '=' else 0
    if toks and toks[0][0] == '=':
        ti = 1
    for op, n in cigar_ops(rec.cigarstring):
        if op == 'M':
            for i in range(n):
                while left == 0:
                    if ti >= len(toks):
                        return None, 'MD shorter than the aligned bases'
                    kind, val = toks[ti]
                    ti += 1
                    if kind == '=':
                        left = val
                    elif kind == 'X':
                        # a mismatch entry names the reference base: an upper case letter that differs from the read base
                        if not val.isupper():
                            return None, 'MD mismatch letter %r is not upper case' % val
                        if val == seq[qi].upper() and val != 'N':
                            return None, 'MD records a mismatch where the read base equals the reference base'
                        res[rp] = val.upper()
                        break
                    else:
                        return None, 'deletion token inside an M block'
                else:
                    res[rp] = seq[qi].upper()
                    left -= 1
                qi += 1
                rp += 1
        elif op in 'IS':
            qi += n
        elif op in 'DN':
            rp += n
    if left or ti < len(toks) and any(t[0] != '=' or t[1] for t in toks[ti:]):
        return None, 'MD longer than the aligned bases'
    return res, None


def check_records(recs, case, reads_desc, out, where, max_N_span, sample, umi, site, nfrag):
    ref = case['ref']
    covered = {}
    for fr in reads_desc:
        for r in fr:
            for qp, rp in aligned_pairs(r['pos'], r['cigar']):
                covered.setdefault(rp, []).append((r['seq'][qp], r['qual'][qp]))
    got_cov = set()
    for rec in recs:
        if rec is None:
            out.bad('%s:none-record' % where, '')
            continue
        ql = sum(n for o, n in cigar_ops(rec.cigarstring) if o in 'MIS')
        if rec.query_sequence is None or len(rec.query_sequence) != ql or rec.query_qualities is None or len(rec.query_qualities) != ql:
            out.bad('%s:length-mismatch' % where, 'cigar %s seq %d qual %r' % (rec.cigarstring, len(rec.query_sequence or ''), None if rec.query_qualities is None else len(rec.query_qualities)))
            continue
        for s, e in rec.get_blocks():
            for p in range(s, e):
                if p in got_cov:
                    out.bad('%s:position-covered-twice' % where, 'pos %d' % p)
                got_cov.add(p)
        if max_N_span is not None:
            for o, n in cigar_ops(rec.cigarstring):
                if o == 'N' and n > max_N_span:
                    out.bad('%s:gap-larger-than-max_N_span-inside-record' % where, 'cigar %s max_N_span %r' % (rec.cigarstring, max_N_span))
        rmap, err = reference_from_md(rec)
        if rmap is None:
            out.bad('%s:MD-inconsistent' % where, '%s: cigar %s MD %r' % (err, rec.cigarstring, rec.get_tag('MD') if rec.has_tag('MD') else None))
        else:
            wrong = [p for p, b in rmap.items() if 0 <= p < len(ref) and ref[p] != b]
            if wrong:
                gaps = any(o == 'N' for o, n in cigar_ops(rec.cigarstring))
                out.bad('%s:MD-disagrees-with-reference%s' % (where, ':record-with-gaps' if gaps else ''),
                        '%d of %d aligned positions, first at %d: MD says %s reference %s; cigar %s' % (
                            len(wrong), len(rmap), wrong[0], rmap[wrong[0]], ref[wrong[0]], rec.cigarstring))
        # base calls
        qi = 0
        rp = rec.reference_start
        for o, n in cigar_ops(rec.cigarstring):
            if o == 'M':
                for i in range(n):
                    obs = covered.get(rp + i, [])
                    exp = decidable(obs)
                    if exp is not None and rec.query_sequence[qi + i] != exp:
                        out.bad('%s:wrong-base-call' % where, 'pos %d observations %r called %s expected %s' % (rp + i, obs, rec.query_sequence[qi + i], exp))
                        break
                qi += n
                rp += n
            elif o in 'IS':
                qi += n
            else:
                rp += n
        # tags
        for tag, want in (('SM', sample), ('RX', umi), ('DS', site), ('TF', nfrag)):
            if want is None:
                continue
            if not rec.has_tag(tag) or rec.get_tag(tag) != want:
                out.bad('%s:tag-%s' % (where, tag), 'got %r expected %r' % (rec.get_tag(tag) if rec.has_tag(tag) else None, want))
    if got_cov != set(covered):
        miss = sorted(set(covered) - got_cov)
        extra = sorted(got_cov - set(covered))
        out.bad('%s:blocks-differ-from-coverage:%s' % (where, 'missing' if miss and not extra else ('extra' if extra and not miss else 'both')),
                '%d covered positions missing (first %r), %d uncovered positions inside blocks (first %r); max_N_span %r; cigars %r' % (
                    len(miss), miss[:3], len(extra), extra[:3], max_N_span, [r.cigarstring for r in recs if r is not None]))
    return covered


def decidable(obs):
    obs = [(b, q) for b, q in obs]
    if not obs or any(q < 20 for b, q in obs):
        return None
    calls = [(b, q) for b, q in obs if b != 'N']
    if not calls or len(calls) != len(obs):
        return None
    bases = {}
    for b, q in calls:
        bases.setdefault(b, []).append(q)
    if len(bases) == 1:
        return list(bases)[0]
    # any number of different bases (all observations phred >= 20, so every further observation multiplies a base's
    # likelihood by more than 3.9): the base with strictly the most observations, each at least as good as any
    # observation of the other bases, is the most likely one; equal counts at one identical quality are undecidable
    ranked = sorted(bases.items(), key=lambda kv: -len(kv[1]))
    (b1, q1), (b2, q2) = ranked[0], ranked[1]
    rest = [q for b, qs in ranked[1:] for q in qs]
    if len(q1) > len(q2) and min(q1) >= max(rest):
        return b1
    if len(q1) == len(q2) and len(set(q1 + q2)) == 1 and all(len(qs) < len(q1) for b, qs in ranked[2:]):
        return 'N'
    return None


def eval_api(case):
    from singlecellmultiomics.fragment import NlaIIIFragment, CHICFragment
    from singlecellmultiomics.molecule import NlaIIIMolecule, CHICMolecule
    out = Outcome()
    ref = case['ref']
    L = len(ref)
    d = scratch_dir()
    fa = os.path.join(d, 'c15_%d.fa' % os.getpid())
    masked = ref
    if case.get('mask'):
        # a soft-masked (lower case) stretch of the reference file, as in the UCSC / Ensembl soft-masked genomes
        a_, n_ = case['mask']
        masked = ref[:a_] + ref[a_:a_ + n_].lower() + ref[a_ + n_:]
    from ..common.fragsim import write_fasta
    write_fasta(fa, [(CONTIG, masked)])
    h = header([(CONTIG, L)])
    desc = build(case)
    try:
        with pysam.FastaFile(fa) as fasta:
            fcls, mcls = (NlaIIIFragment, NlaIIIMolecule) if case['method'] == 'nla' else (CHICFragment, CHICMolecule)
            # UMIs of the fragments: all alike, or some carrying a sequencing error (distance 1; fragments then join under distance 1)
            pat = case.get('umi_errors') or []
            umis = ['ACT' if (i < len(pat) and pat[i]) else 'ACG' for i in range(len(desc))]
            frs = []
            for fi, fr in enumerate(desc):
                reads = []
                for r in fr:
                    other = [x for x in fr if x is not r]
                    a = mk_read(h, 'frag%d' % fi, 0, r['pos'], r['seq'], reverse=r['reverse'], sample='cellX', umi=umis[fi], cigar=r['cigar'],
                                qual=''.join(chr(33 + q) for q in r['qual']), paired=True, read2=r['read2'],
                                mate=((0, other[0]['pos'], other[0]['reverse'], False) if other else (0, 0, False, True)),
                                tags={'BC': 'AAACCCGG', 'MD': md_tag(ref, r['pos'], r['seq'], r['cigar'])})
                    reads.append(a)
                if len(reads) == 1:
                    reads.append(None)
                frs.append(fcls(reads, umi_hamming_distance=0 if len(set(umis)) == 1 else 1))
            if not all(f.is_valid() for f in frs):
                return out.label('skipped: generated fragment not valid')
            cap = case.get('cap')
            m = mcls(frs[0], reference=fasta, **({'max_associated_fragments': cap} if cap else {}))
            accepted = 1
            early = case.get('early_request')
            for fi, f in enumerate(frs[1:], start=1):
                if early is not None and fi == early:
                    try:
                        m.deduplicate_majority(Collector(h), 'early_request', max_N_span=case['max_N_span'])
                        out.label('consensus requested before the molecule was complete')
                    except Exception:
                        pass
                try:
                    if not m.add_fragment(f):
                        return out.label('skipped: fragments not joinable')
                    accepted += 1
                except OverflowError:
                    # the molecule is full: the fragment is counted (TF) but contributes no coverage
                    out.label('fragments beyond the cap')
            if cap:
                desc = desc[:accepted]
            m.__finalise__()
            col = Collector(h)
            span = case['max_N_span']
            try:
                if case['entry'] == 'write_pysam':
                    m.write_pysam(col, consensus=True, no_source_reads=True)
                    recs = col.records
                    span = None
                else:
                    recs = m.deduplicate_majority(col, 'consensus_1', max_N_span=span)
            except Exception as e:
                import traceback
                tb = [x for x in traceback.extract_tb(e.__traceback__) if 'singlecellmultiomics' in x.filename]
                return out.bad('api:exception:%s:%s' % (type(e).__name__, tb[-1].name if tb else '?'), repr(e)[:300])
            site = frs[0].site_location[1] if frs[0].site_location else None
            cnt_ = {}
            for u in umis[:accepted]:       # fragments refused by a cap do not vote
                cnt_[u] = cnt_.get(u, 0) + 1
            top = sorted(cnt_.items(), key=lambda kv: -kv[1])
            # the record carries the UMI seen in most fragments (not asserted when two UMIs are equally frequent)
            want_umi = top[0][0] if len(top) == 1 or top[0][1] > top[1][1] else None
            covered = check_records(recs, case, desc, out, 'api', span, 'cellX', want_umi, site, len(frs))
            pos_sorted = sorted(covered)
            gaps = any(b - a > 1 for a, b in zip(pos_sorted, pos_sorted[1:]))
            conflicts = any(len({b for b, q in v if b != 'N'}) > 1 for v in covered.values())
            out.nontrivial = gaps and conflicts
            out.label('max_N_span=%r' % span, 'entry=%s' % case['entry'])
    finally:
        for p in (fa, fa + '.fai'):
            if os.path.exists(p):
                os.remove(p)
    seen = {}
    for s, msg in out.violations:
        seen.setdefault(s, msg)
    out.violations = list(seen.items())
    return out


# ------------------------------------------------------------------------ command line

def cli_strategy():
    @st.composite
    def case(draw):
        spec = draw(libsim.spec_strategy(max_contigs=2, max_mols=8, extras=False, contig_classes=('large',), naming=('tagged',), max_cells=2))
        spec['contigs'] = [[c[0], 120000] for c in spec['contigs']]
        for m in spec['mols']:
            m['site'] = min(m['site'], 100000)
        return {'spec': spec, 'no_source_reads': draw(st.booleans()), 'refseed': draw(st.integers(0, 10 ** 6))}
    return case()


def eval_cli(case):
    out = Outcome()
    spec = case['spec']
    contigs, records, truth = libsim.realize(spec)
    d = os.path.join(scratch_dir(), 'c15c_%d' % os.getpid())
    shutil.rmtree(d, ignore_errors=True)
    os.makedirs(d)
    try:
        rng = random.Random(case['refseed'])
        refs = {}
        fa = os.path.join(d, 'ref.fa')
        from ..common.fragsim import write_fasta
        for c, ln in contigs:
            refs[c] = ''.join(rng.choice('ACGT') for _ in range(ln))
        write_fasta(fa, [(c, refs[c]) for c, ln in contigs], width=80)
        bam_in, bam_out = os.path.join(d, 'in.bam'), os.path.join(d, 'out.bam')
        write_bam(bam_in, contigs, records)
        extra = ['--consensus', '-ref', fa, '-umi_hamming_distance', '0'] + (['--no_source_reads'] if case['no_source_reads'] else [])
        try:
            tagrun.run_tagger(bam_in, bam_out, spec['method'], multiprocess=True, threads=2, pool='det', extra=extra)
        except BaseException as e:
            import traceback
            tb = [x for x in traceback.extract_tb(e.__traceback__) if 'singlecellmultiomics' in x.filename]
            return out.bad('cli:exception:%s:%s' % (type(e).__name__, tb[-1].name if tb else '?'), repr(e)[:300])
        if not os.path.exists(bam_out):
            return out.bad('cli:no-output', 'status %r' % tagrun.status_text(bam_out))
        cons = []
        src = 0
        with pysam.AlignmentFile(bam_out) as f:
            for r in f.fetch(until_eof=True):
                if r.query_name.startswith('molecule_') or r.query_name.startswith('consensus'):
                    cons.append(r)
                else:
                    src += 1
        if case['no_source_reads'] and src:
            out.bad('cli:source-reads-written-despite-no_source_reads', '%d records' % src)
        # expected: one consensus (group) per truth molecule; coverage per molecule from the simulator records
        groups = {}
        for s, t in truth.items():
            groups.setdefault(tuple(t['key']), []).append(s)
        by_name = {}
        for r in cons:
            by_name.setdefault(r.query_name, []).append(r)
        if len(by_name) != len(groups):
            out.bad('cli:consensus-count', '%d consensus reads for %d molecules' % (len(by_name), len(groups)))
        recs_by_serial = {}
        for r in records:
            recs_by_serial.setdefault(int(r['name'][4:]), []).append(r)
        for name, rs in by_name.items():
            key = (rs[0].get_tag('SM'), rs[0].reference_name)
            # find the truth molecule by DS / sample / umi
            cand = [k for k in groups if 'cell%d' % k[0] == rs[0].get_tag('SM') and contigs[k[1]][0] == rs[0].reference_name
                    and k[3] == (rs[0].get_tag('DS') if rs[0].has_tag('DS') else None) and k[4] == (rs[0].get_tag('RX') if rs[0].has_tag('RX') else None)
                    and bool(k[2]) == bool(rs[0].is_reverse)]
            if len(cand) != 1:
                out.bad('cli:consensus-read-matches-no-molecule', '%s SM %r DS %r RX %r' % (name, rs[0].get_tag('SM'), rs[0].get_tag('DS') if rs[0].has_tag('DS') else None, rs[0].get_tag('RX') if rs[0].has_tag('RX') else None))
                continue
            k = cand[0]
            desc = [[{'pos': r['pos'], 'cigar': r['cigar'], 'seq': r['seq'], 'qual': [40] * len(r['seq'])} for r in recs_by_serial[s]] for s in groups[k]]
            sub = dict(case)
            sub['ref'] = refs[contigs[k[1]][0]]
            check_records(rs, sub, desc, out, 'cli', None, 'cell%d' % k[0], k[4], k[3], len(groups[k]))
        out.nontrivial = len(groups) >= 2
    finally:
        shutil.rmtree(d, ignore_errors=True)
    seen = {}
    for s, msg in out.violations:
        seen.setdefault(s, msg)
    out.violations = list(seen.items())
    return out


def parts(tier):
    t = tier == 'thorough'
    return [
        Part('api', eval_api, strategy=strategy, examples=250000 if t else 2000),
        Part('deep', eval_api, strategy=lambda: strategy(deep=True), examples=3000 if t else 48),
        Part('cli', eval_cli, strategy=cli_strategy, examples=3000 if t else 48),
    ]
