"""C17 - blacklist-aware genome tiling is an exact partition with contained fetch windows."""
import os
import itertools
from hypothesis import strategies as st
from ..core import Part, Outcome, scratch_dir

ID = 'C17'
LEVEL = 'exploration'
NONTRIVIAL_FLOOR = 0.3
RULE = ('part small: every (region start, length, blacklist of <=2 intervals with endpoints in start-2..end+3) '
        'with start in {0,3}, length 0..12 (thorough: start 0..6 step 3, length 0..22); each case evaluates ALL '
        'bin sizes 1..length+2 x fragment sizes {None,0,1,2,3,5,7,12} (exhaustive over that finite domain). '
        'part multi: Hypothesis blacklists of 3..6 intervals on small regions. part genome: genome-scale numbers. '
        'part contigs: blacklisted_binning_contigs with a BED file. part aux: fill_range, bp_chunked. '
        'Oracle: interval arithmetic (free set = region minus union of blacklist). Non-trivial: blacklist '
        'intersects the region and at least 2 bins are produced (aux: at least 2 pieces).')
ASSUMPTIONS = ['blacklist intervals are half-open [start,end) with start<end (BED convention); bins are half-open',
               'region start <= region end; bin_size >= 1; fragment_size >= 0 or None']


def free_intervals(S, E, bl):
    """Region [S,E) minus the union of the blacklist, as sorted list of maximal half-open intervals."""
    cuts = sorted((max(s, S), min(e, E)) for s, e in bl if min(e, E) > max(s, S))
    out = []
    cur = S
    for s, e in cuts:
        if s > cur:
            out.append((cur, s))
        cur = max(cur, e)
    if cur < E:
        out.append((cur, E))
    return out


def check_tiling(S, E, b, bl, F, result):
    """Returns (signature, message) or None. result: list of tuples yielded by the code."""
    free = free_intervals(S, E, bl)
    bins = [(int(t[0]), int(t[1])) for t in result]
    for (s, e) in bins:
        if e <= s:
            return 'empty-or-inverted-bin', 'bin (%d,%d)' % (s, e)
    if bins != sorted(bins):
        return 'unsorted', 'bins %r' % (bins,)
    for (s, e), (s2, e2) in zip(bins, bins[1:]):
        if s2 < e:
            return 'overlapping-bins', 'bins (%d,%d) and (%d,%d) overlap' % (s, e, s2, e2)
    for (s, e) in bins:
        if s < S or e > E:
            return 'bin-outside-region', 'bin (%d,%d) leaves region [%d,%d)' % (s, e, S, E)
    for (s, e) in bins:
        for (bs, be) in bl:
            if max(s, bs) < min(e, be):
                return 'bin-touches-blacklist', 'bin (%d,%d) overlaps blacklisted (%d,%d)' % (s, e, bs, be)
    for (s, e) in bins:
        if e - s > b:
            return 'bin-too-large', 'bin (%d,%d) larger than bin_size %d' % (s, e, b)
    # coverage: merged bins must equal the free set
    merged = []
    for (s, e) in bins:
        if merged and merged[-1][1] == s:
            merged[-1] = (merged[-1][0], e)
        else:
            merged.append((s, e))
    # a bin boundary may coincide with nothing in between: merged adjacent bins vs free intervals
    if merged != free:
        return 'gap', 'bins cover %r, free region is %r' % (merged, free)
    if F is not None:
        for t in result:
            if len(t) != 4:
                return 'no-fetch-window', 'tuple %r' % (t,)
            s, e, fs, fe = (int(v) for v in t)
            if fs > s or fe < e:
                return 'window-does-not-contain-bin', 'bin (%d,%d) window (%d,%d)' % (s, e, fs, fe)
            if s - fs > F or fe - e > F:
                return 'window-larger-than-fragment', 'bin (%d,%d) window (%d,%d) F=%d' % (s, e, fs, fe, F)
            if fs < S or fe > E:
                return 'window-outside-region', 'bin (%d,%d) window (%d,%d) region [%d,%d)' % (s, e, fs, fe, S, E)
            for (bs, be) in bl:
                if max(fs, bs) < min(fe, be):
                    return 'window-into-blacklist', 'bin (%d,%d) window (%d,%d) overlaps blacklisted (%d,%d)' % (
                        s, e, fs, fe, bs, be)
            # documented (blacklisted_binning_contigs docstring): the window equals bin -/+ fragment_size unless that
            # would overlap the blacklist or leave the region, i.e. it is clipped to the free stretch holding the bin
            for (a, z) in free:
                if a <= s and e <= z and (fs != max(s - F, a) or fe != min(e + F, z)):
                    return 'window-smaller-than-documented', 'bin (%d,%d) window (%d,%d), documented (%d,%d)' % (
                        s, e, fs, fe, max(s - F, a), min(e + F, z))
    else:
        for t in result:
            if len(t) != 2:
                return 'unexpected-tuple', 'tuple %r' % (t,)
    return None


def run_one(S, E, b, bl, F, out, none_for_empty=False):
    from singlecellmultiomics.bamProcessing.bamBinCounts import blacklisted_binning
    arg = None if (none_for_empty and not bl) else [tuple(x) for x in bl]
    try:
        res = list(blacklisted_binning(S, E, b, arg, F))
    except Exception as e:
        out.bad('exception:%s' % type(e).__name__, 'blacklisted_binning(%d,%d,%d,%r,%r) raised %r' % (S, E, b, arg, F, e))
        return None
    v = check_tiling(S, E, b, bl, F, res)
    if v:
        out.bad(v[0], 'blacklisted_binning(%d,%d,%d,%r,%r) -> %r : %s' % (S, E, b, arg, F, res[:12], v[1]))
    return res


FRAGS = [None, 0, 1, 2, 3, 5, 7, 12]


def eval_small(case):
    S, L, bl = case
    E = S + L
    out = Outcome()
    nbins_max = 0
    for b in range(1, L + 3):
        for F in FRAGS:
            res = run_one(S, E, b, bl, F, out, none_for_empty=(b % 2 == 0))
            if res is not None:
                nbins_max = max(nbins_max, len(res))
            if len(out.violations) > 6:
                break
    # keep one violation per signature
    seen = {}
    for s, m in out.violations:
        seen.setdefault(s, m)
    out.violations = list(seen.items())
    inter = any(max(s, S) < min(e, E) for s, e in bl)
    out.nontrivial = inter and nbins_max >= 2
    out.label('combos:%d' % ((L + 2) * len(FRAGS)))
    if inter:
        out.label('blacklist intersects region')
    return out


def small_cases(starts, maxlen):
    def gen():
        for S in starts:
            for L in range(0, maxlen + 1):
                E = S + L
                pts = list(range(S - 2, E + 4))
                ivs = [(a, c) for a in pts for c in pts if a < c]
                yield [S, L, []]
                for iv in ivs:
                    yield [S, L, [list(iv)]]
                for i, j in itertools.combinations(range(len(ivs)), 2):
                    yield [S, L, [list(ivs[i]), list(ivs[j])]]
                    if (i + j) % 3 == 0:
                        yield [S, L, [list(ivs[j]), list(ivs[i])]]     # blacklist not sorted by start
    return gen


def multi_strategy():
    @st.composite
    def case(draw):
        S = draw(st.integers(0, 6))
        L = draw(st.integers(1, 60))
        E = S + L
        n = draw(st.integers(3, 6))
        bl = []
        for _ in range(n):
            a = draw(st.integers(S - 2, E + 2))
            ln = draw(st.sampled_from([1, 1, 2, 3, 5, 8, L]))
            bl.append([a, a + ln])
        if draw(st.booleans()):
            bl.sort()
        b = draw(st.integers(1, L + 3))
        F = draw(st.sampled_from(FRAGS + [b, b + 1, 2 * b, L]))
        return [S, E, b, bl, F]
    return case()


def eval_one(case):
    S, E, b, bl, F = case
    out = Outcome()
    res = run_one(S, E, b, bl, F, out)
    inter = any(max(s, S) < min(e, E) for s, e in bl)
    out.nontrivial = inter and res is not None and len(res) >= 2
    if F is not None and F > b:
        out.label('bin_size < fragment_size')
    if res is not None and res and any((t[1] - t[0]) < b for t in res):
        out.label('remainder / smaller bin present')
    return out


def genome_strategy():
    @st.composite
    def case(draw):
        E = draw(st.sampled_from([100_000, 1_000_000, 16_569, 248_956_422, 57_227_415])) + draw(st.integers(0, 1000))
        S = draw(st.sampled_from([0, 0, 0, 1000]))
        b = draw(st.sampled_from([1000, 50_000, 100_000, 250_000, 500_000, 1_000_000, 5_000_000])) + draw(st.integers(0, 3))
        b = max(b, (E - S) // 3000 + 1)
        n = draw(st.integers(0, 6))
        bl = []
        for _ in range(n):
            kind = draw(st.sampled_from(['any', 'at_start', 'at_end', 'on_bin', 'cover']))
            ln = draw(st.sampled_from([1, 50, 1000, 33_000, b, 3 * b]))
            if kind == 'at_start':
                a = S - draw(st.integers(0, 5))
            elif kind == 'at_end':
                a = E - ln + draw(st.integers(-2, 2))
            elif kind == 'on_bin':
                a = S + draw(st.integers(0, max(1, (E - S) // b))) * b
            elif kind == 'cover':
                a, ln = S - 1, E - S + 2
            else:
                a = draw(st.integers(S, E))
            bl.append([a, a + ln])
        bl.sort()
        F = draw(st.sampled_from([None, 0, 500, 1000, 50_000, b, 2 * b + 1]))
        return [S, E, b, bl, F]
    return case()


def contigs_strategy():
    @st.composite
    def case(draw):
        nc = draw(st.integers(1, 4))
        pre = draw(st.sampled_from(['c', 'c', 'chr', '']))        # '' = purely numeric contig names (Ensembl style 1, 2, ...)
        nm = lambda i: '%s%d' % (pre, i + 1)
        contigs = [[nm(i), draw(st.integers(1, 80))] for i in range(nc)]
        bl = []
        for _ in range(draw(st.integers(0, 6))):
            ci = draw(st.integers(0, nc))   # nc = contig that does not exist in the resource
            ln = contigs[ci][1] if ci < nc else 50
            a = draw(st.integers(0, ln + 1))
            bl.append([nm(ci), a, a + draw(st.integers(1, 12))])
        b = draw(st.integers(1, 30))
        F = draw(st.sampled_from([None, 0, 1, 3, 10, 40]))
        wl = draw(st.one_of(st.none(), st.lists(st.sampled_from([nm(i) for i in range(nc)]), unique=True, min_size=1)))
        # the contig lengths are given as a list, or taken from the header of a BAM file named by its path (the same path for
        # every case of a process, rewritten each time)
        return {'contigs': contigs, 'bed': bl, 'bin': b, 'frag': F, 'whitelist': wl, 'gz': draw(st.booleans()),
                'resource': draw(st.sampled_from(['list', 'list', 'bam_path']))}
    return case()


def eval_contigs(case):
    import gzip
    from singlecellmultiomics.bamProcessing.bamBinCounts import blacklisted_binning_contigs
    out = Outcome()
    path = None
    if case['bed']:
        path = os.path.join(scratch_dir(), 'bl_%d.bed%s' % (os.getpid(), '.gz' if case['gz'] else ''))
        txt = ''.join('%s\t%d\t%d\n' % tuple(r) for r in case['bed'])
        if case['gz']:
            with gzip.open(path, 'wt') as f:
                f.write(txt)
        else:
            with open(path, 'w') as f:
                f.write(txt)
    contigs = [tuple(c) for c in case['contigs']]
    resource = contigs
    if case.get('resource') == 'bam_path':
        import pysam
        resource = os.path.join(scratch_dir(), 'c17_%d.bam' % os.getpid())
        hdr = pysam.AlignmentHeader.from_dict({'HD': {'VN': '1.6', 'SO': 'coordinate'}, 'SQ': [{'SN': n, 'LN': int(l)} for n, l in contigs]})
        with pysam.AlignmentFile(resource, 'wb', header=hdr):
            pass
    try:
        res = list(blacklisted_binning_contigs(resource, case['bin'], case['frag'], blacklist_path=path,
                                               contig_whitelist=case['whitelist']))
    except Exception as e:
        out.bad('contigs:exception:%s' % type(e).__name__, 'blacklisted_binning_contigs raised %r on %r' % (e, case))
        return out
    finally:
        if path and os.path.exists(path):
            os.remove(path)
    per = {}
    order = []
    for t in res:
        per.setdefault(t[0], []).append(t[1:])
        if not order or order[-1] != t[0]:
            order.append(t[0])
    want = [c for c, _ in contigs if case['whitelist'] is None or c in case['whitelist']]
    nb = 0
    inter = False
    for c, ln in contigs:
        bl = [(s, e) for cc, s, e in case['bed'] if cc == c]
        inter = inter or any(s < ln for s, e in bl)
        if c in want:
            v = check_tiling(0, ln, case['bin'], bl, case['frag'], per.get(c, []))
            nb += len(per.get(c, []))
            if v:
                out.bad('contigs:' + v[0], 'contig %s len %d bl %r bin %d frag %r -> %r: %s' % (
                    c, ln, bl, case['bin'], case['frag'], per.get(c, [])[:10], v[1]))
        elif c in per:
            out.bad('contigs:non-whitelisted-contig-emitted', 'contig %s' % c)
    if [c for c in order] != [c for c in want if c in per]:
        out.bad('contigs:contig-order', 'order %r want %r' % (order, want))
    out.nontrivial = inter and nb >= 2
    return out


def aux_strategy():
    @st.composite
    def case(draw):
        kind = draw(st.sampled_from(['fill_range', 'bp_chunked']))
        if kind == 'fill_range':
            s = draw(st.integers(0, 50))
            e = s + draw(st.integers(0, 120))
            return [kind, s, e, draw(st.integers(1, 130))]
        jobs = []
        pos = 0
        for i in range(draw(st.integers(0, 25))):
            ln = draw(st.integers(1, 40))
            jobs.append(['c', pos, pos + ln, i])
            pos += ln + draw(st.sampled_from([0, 0, 5]))
        return [kind, jobs, draw(st.integers(1, 120))]
    return case()


def eval_aux(case):
    out = Outcome()
    if case[0] == 'fill_range':
        from singlecellmultiomics.bamProcessing.bamBinCounts import fill_range
        _, s, e, step = case
        try:
            res = [(int(a), int(b)) for a, b in fill_range(s, e, step)]
        except Exception as ex:
            return out.bad('fill_range:exception', repr(ex))
        out.nontrivial = len(res) >= 2
        cur = s
        for a, b in res:
            if a != cur or b <= a or b - a > step:
                out.bad('fill_range:not-a-tiling', 'fill_range(%d,%d,%d) = %r' % (s, e, step, res))
                return out
            cur = b
        if cur != e and not (e == s and not res):
            out.bad('fill_range:does-not-reach-end', 'fill_range(%d,%d,%d) = %r' % (s, e, step, res))
    else:
        from singlecellmultiomics.utils.binning import bp_chunked
        _, jobs, bp = case
        jobs_t = [tuple(j) for j in jobs]
        try:
            chunks = [list(c) for c in bp_chunked(iter(jobs_t), bp)]
        except Exception as ex:
            return out.bad('bp_chunked:exception', repr(ex))
        flat = [j for c in chunks for j in c]
        out.nontrivial = len([c for c in chunks if c]) >= 2
        if flat != jobs_t:
            out.bad('bp_chunked:content-or-order', 'input %r chunks %r' % (jobs_t, chunks))
        if any(len(c) == 0 for c in chunks[:-1]):
            out.bad('bp_chunked:empty-inner-chunk', 'chunks %r' % (chunks,))
    return out


def parts(tier):
    t = tier == 'thorough'
    return [
        Part('small', eval_small, cases=small_cases([0, 3, 6] if t else [0, 3], 22 if t else 12), exhaustive=True),
        Part('multi', eval_one, strategy=multi_strategy, examples=200000 if t else 6000),
        Part('genome', eval_one, strategy=genome_strategy, examples=20000 if t else 1500),
        Part('contigs', eval_contigs, strategy=contigs_strategy, examples=30000 if t else 1500),
        Part('aux', eval_aux, strategy=aux_strategy, examples=50000 if t else 3000),
    ]
