"""C14 - TAPS methylation calls reflect reference context and observed conversion."""
import os
import pysam
from hypothesis import strategies as st
from ..core import Part, Outcome, scratch_dir
from ..common.fragsim import header, mk_read, md_tag, aligned_pairs, ref_len, revcomp
from .c13 import vote

ID = 'C14'
LEVEL = 'exploration'
NONTRIVIAL_FLOOR = 0.25
RULE = ('Hypothesis-generated cases of 1..4 molecules sharing ONE TAPS instance on two random contigs (60..300 bp, with N '
        'bases and C/G at the contig ends), random methylation pattern, both strands, both TAPS strand conventions, '
        'classes TAPSMolecule / TAPSNlaIIIMolecule / TAPSCHICMolecule, paired inward / overlapping / dove-tailed and '
        'single-end fragments, sequencing errors. methylation_call_dict, XM and the count tags after __finalise__ are '
        'compared with an independent caller (brute-force dove-safe vote + context from the reference string). '
        'Part deep: one molecule of 254..513 paired fragments whose per-position conversion counts sit next to 0, 256 and n. Non-trivial: the case has at least one converted and one unconverted call in at least 2 context classes.')
ASSUMPTIONS = ['reads carry correct MD tags; reference handle is pysam.FastaFile over the generated FASTA',
               'fragments of a molecule share cell, UMI, R1 orientation and (NlaIII/scCHIC) the cut site',
               'context table as documented in TAPS.__init__: CG*=z, C[ACT]G=x, C[ACT][ACT]=h, upper case = converted']


def context_letter(ref, p, X, base):
    if X == 'C':
        ctx = ref[p:p + 3].upper()
        meth = True if base == 'T' else (False if base == 'C' else None)
    else:
        if p - 2 < 0:
            return '.'
        ctx = revcomp(ref[p - 2:p + 1].upper()) if all(c in 'ACGTN' for c in ref[p - 2:p + 1].upper()) else None
        meth = True if base == 'A' else (False if base == 'G' else None)
    if meth is None or ctx is None or len(ctx) != 3 or any(c not in 'ACGT' for c in ctx) or ctx[0] != 'C':
        return '.'
    if ctx[1] == 'G':
        letter = 'z'
    elif ctx[2] == 'G':
        letter = 'x'
    else:
        letter = 'h'
    return letter.upper() if meth else letter


def strategy():
    @st.composite
    def contig(draw):
        L = draw(st.integers(60, 300))
        seq = draw(st.lists(st.sampled_from('ACGTCG'), min_size=L, max_size=L))
        for _ in range(draw(st.integers(0, 3))):
            seq[draw(st.integers(0, L - 1))] = 'N'
        edge = draw(st.sampled_from(['C', 'G', None]))
        if edge:
            seq[0] = seq[1] = seq[-1] = seq[-2] = edge
        return ''.join(seq)

    @st.composite
    def molecule(draw, refs):
        tid = draw(st.integers(0, 1))
        ref = refs[tid]
        L = len(ref)
        cls = draw(st.sampled_from(['plain', 'nla', 'chic']))
        r1_rev = draw(st.booleans())
        taps_strand = draw(st.sampled_from(['F', 'R']))
        X = ('G' if r1_rev else 'C') if taps_strand == 'F' else ('C' if r1_rev else 'G')
        meth_p = draw(st.sampled_from([0, 2, 5, 8, 10]))
        meth = [draw(st.integers(0, 9)) < meth_p for _ in range(L)]
        anchor = draw(st.sampled_from([0, 1, 2, L - 1, draw(st.integers(0, L - 1)), draw(st.integers(0, L - 1))]))
        nfrag = draw(st.sampled_from([1, 1, 2, 3, 4]))
        # a molecule at the very start of the contig whose safe span is the single base 0 (one mate is trimmed down to that base)
        edge0 = draw(st.integers(0, 11)) == 0
        if edge0:
            anchor = 0
        frags = []
        for _ in range(nfrag):
            ln1 = draw(st.integers(8, 45))
            if not r1_rev:
                s1 = min(anchor, L - 8)
                e1 = min(L, s1 + ln1)
            else:
                e1 = max(anchor + 1, 8)
                e1 = min(e1, L)
                s1 = max(0, e1 - ln1)
            layout = draw(st.sampled_from(['inward', 'inward', 'overlap', 'dovetail', 'single', 'edge']))
            r2 = None
            if layout != 'single':
                ln2 = draw(st.integers(8, 45))
                if not r1_rev:
                    if layout == 'inward':
                        s2 = e1 + draw(st.integers(-4, 30))
                    elif layout == 'overlap':
                        s2 = s1 + draw(st.integers(0, max(0, e1 - s1 - 1)))
                    elif layout == 'edge':
                        s2 = L - ln2
                    else:
                        s2 = s1 - draw(st.integers(1, 8))
                    s2 = max(0, min(L - 5, s2))
                    e2 = min(L, s2 + ln2)
                else:
                    if layout == 'inward':
                        e2 = s1 - draw(st.integers(-4, 30))
                    elif layout == 'overlap':
                        e2 = e1 - draw(st.integers(0, max(0, e1 - s1 - 1)))
                    elif layout == 'edge':
                        e2 = ln2
                    else:
                        e2 = e1 + draw(st.integers(1, 8))
                    e2 = max(5, min(L, e2))
                    s2 = max(0, e2 - ln2)
                r2 = [s2, e2]
            if edge0:
                if not r1_rev:
                    s1, e1, r2 = 0, min(L, ln1), [0, 1]
                else:
                    s1, e1, r2 = 0, 1, [0, min(L, draw(st.integers(8, 45)))]
            reads = []
            for span in ([s1, e1], r2):
                if span is None:
                    reads.append(None)
                    continue
                s, e = span
                seq, qual = [], []
                for p in range(s, e):
                    b = ref[p]
                    if b == X and meth[p]:
                        b = 'T' if X == 'C' else 'A'
                    err = draw(st.integers(0, 39))
                    if err == 0:
                        b = draw(st.sampled_from('ACGT'))
                    elif err == 1:
                        b = 'N'
                    if b == 'N' and ref[p] == 'N' and err > 1:
                        b = draw(st.sampled_from('ACGT'))
                    seq.append(b)
                    qual.append(draw(st.sampled_from([20, 30, 30, 40, 30, 40, 0])))
                clip = draw(st.sampled_from([0, 0, 0, 2]))
                reads.append({'pos': s, 'cigar': ('%dS' % clip if clip else '') + '%dM' % (e - s),
                              'seq': 'A' * clip + ''.join(seq), 'qual': [30] * clip + qual})
            frags.append({'r1': reads[0], 'r2': reads[1]})
        # allow_unsafe_base_calls: calls are also made outside the span both mates vouch for (and for single-end fragments)
        return {'tid': tid, 'cls': cls, 'r1_rev': r1_rev, 'taps_strand': taps_strand, 'X': X, 'frags': frags,
                'unsafe': draw(st.sampled_from([False, False, False, True]))}

    @st.composite
    def case(draw):
        refs = [draw(contig()), draw(contig())]
        share = draw(st.booleans())
        mols = [draw(molecule(refs)) for _ in range(draw(st.integers(1, 4)))]
        if share and len(mols) > 1:
            # same geometry replayed on the other contig: contexts differ, coordinates coincide
            m = dict(mols[0])
            if len(refs[1 - m['tid']]) >= max((r['pos'] + ref_len(r['cigar'])) for f in m['frags'] for r in (f['r1'], f['r2']) if r):
                m2 = {k: v for k, v in m.items()}
                m2['tid'] = 1 - m['tid']
                mols[1] = m2
        return {'refs': refs, 'mols': mols, 'mask': draw(st.sampled_from([None, None, [draw(st.integers(0, 50)), draw(st.integers(3, 80))]]))}
    return case()


def deep_strategy():
    """One very deep molecule (around 256 / 512 fragments) with per-position conversion counts next to the 8-bit boundaries."""
    @st.composite
    def case(draw):
        L = draw(st.integers(60, 90))
        seq = draw(st.lists(st.sampled_from('ACGTCG'), min_size=L, max_size=L))
        ref = ''.join(seq)
        n = draw(st.sampled_from([254, 255, 256, 257, 258, 300, 511, 512, 513]))
        cls = draw(st.sampled_from(['plain', 'nla', 'chic']))
        r1_rev = draw(st.booleans())
        taps_strand = draw(st.sampled_from(['F', 'R']))
        X = ('G' if r1_rev else 'C') if taps_strand == 'F' else ('C' if r1_rev else 'G')
        ln = draw(st.integers(12, 24))
        gap = draw(st.integers(0, 6))
        s_left = draw(st.integers(0, L - (2 * ln + gap)))
        left, right = [s_left, s_left + ln], [s_left + ln + gap, s_left + 2 * ln + gap]
        s1e1, s2e2 = (left, right) if not r1_rev else (right, left)
        conv = {}
        for p in range(left[0], right[1]):
            if ref[p] == X:
                conv[p] = draw(st.sampled_from([0, 1, n - 257, n - 256, n - 255, 255, 256, 257, n // 2, n - 1, n]))
        frags = []
        for i in range(n):
            reads = []
            for s, e in (s1e1, s2e2):
                sq = []
                for p in range(s, e):
                    b = ref[p]
                    if p in conv and 0 <= i < max(0, min(n, conv[p])):
                        b = 'T' if X == 'C' else 'A'
                    sq.append(b)
                reads.append({'pos': s, 'cigar': '%dM' % (e - s), 'seq': ''.join(sq), 'qual': [30] * (e - s)})
            frags.append({'r1': reads[0], 'r2': reads[1]})
        mol = {'tid': 0, 'cls': cls, 'r1_rev': r1_rev, 'taps_strand': taps_strand, 'X': X, 'frags': frags}
        return {'refs': [ref, 'ACGT' * 15], 'mols': [mol], 'deep': True}
    return case()


CLASSES = None


def classes():
    from singlecellmultiomics.molecule import TAPSMolecule, TAPSNlaIIIMolecule, TAPSCHICMolecule
    from singlecellmultiomics.fragment import Fragment, NlaIIIFragment, CHICFragment
    return {'plain': (TAPSMolecule, Fragment, {'assignment_radius': 10 ** 6}),
            # the generator does not plant CATG at the R1 start: motif checking is C09's subject
            'nla': (TAPSNlaIIIMolecule, NlaIIIFragment, {'check_motif': False}),
            'chic': (TAPSCHICMolecule, CHICFragment, {})}


def expected_calls(ref, mol):
    """Independent caller. Returns {pos: (base, letter)}"""
    X = mol['X']
    fcalls = []
    for f in mol['frags']:
        if mol.get('unsafe'):
            from .c13 import fragment_calls
            fcalls.append({p: b for p, b in fragment_calls(f, mol['r1_rev'], False).items() if ref[p].upper() == X})
            continue
        if f['r2'] is None:
            continue
        r1s, r1e = f['r1']['pos'], f['r1']['pos'] + ref_len(f['r1']['cigar'])
        r2s, r2e = f['r2']['pos'], f['r2']['pos'] + ref_len(f['r2']['cigar'])
        lo, hi = (r2s, r1e - 1) if mol['r1_rev'] else (r1s, r2e - 1)
        per = []
        for r in (f['r1'], f['r2']):
            per.append({rp: (r['seq'][qp], r['qual'][qp]) for qp, rp in aligned_pairs(r['pos'], r['cigar'])
                        if lo <= rp <= hi and ref[rp].upper() == X})
        c1, c2 = per
        res = {}
        for p in set(c1) | set(c2):
            a, b = c1.get(p), c2.get(p)
            if a is None:
                call = b[0]
            elif b is None:
                call = a[0]
            elif a[1] > b[1]:
                call = a[0]
            elif b[1] > a[1]:
                call = b[0]
            else:
                call = a[0] if a[0] == b[0] else None
            if call is not None and call != 'N':
                res[p] = call
        fcalls.append(res)
    cons, _ = vote(fcalls)
    return {p: (b, context_letter(ref, p, X, b)) for p, b in cons.items()}


def eval_case(case):
    from singlecellmultiomics.molecule import TAPS
    out = Outcome()
    d = scratch_dir()
    fa = os.path.join(d, 'ref_%d.fa' % os.getpid())
    from ..common.fragsim import write_fasta
    # the reference file may be soft-masked (lower case stretches); contexts are case-insensitive
    mk = case.get('mask')
    write_fasta(fa, [('ctg%d' % i, (r if not mk else r[:mk[0]] + r[mk[0]:mk[0] + mk[1]].lower() + r[mk[0] + mk[1]:])) for i, r in enumerate(case['refs'])])
    contigs = [('ctg%d' % i, len(r)) for i, r in enumerate(case['refs'])]
    h = header(contigs)
    taps = TAPS()
    letters_seen = set()
    cl = classes()
    try:
        with pysam.FastaFile(fa) as fasta:
            for mi, mol in enumerate(case['mols']):
                ref = case['refs'][mol['tid']]
                mcls, fcls, fargs = cl[mol['cls']]
                ref_l = list(ref)
                frags = []
                ok = True
                for fi, f in enumerate(mol['frags']):
                    reads = []
                    for which, r, rev in (('r1', f['r1'], mol['r1_rev']), ('r2', f['r2'], not mol['r1_rev'])):
                        if r is None:
                            reads.append(None)
                            continue
                        other = f['r2'] if which == 'r1' else f['r1']
                        a = mk_read(h, 'm%df%d' % (mi, fi), mol['tid'], r['pos'], r['seq'], reverse=rev, sample='cellA', umi='ACG',
                                    cigar=r['cigar'], qual=''.join(chr(33 + q) for q in r['qual']), paired=True, read2=(which == 'r2'),
                                    mate=((mol['tid'], other['pos'], not rev, False) if other is not None else (0, 0, False, True)))
                        a.set_tag('MD', md_tag(ref, r['pos'], r['seq'], r['cigar']))
                        reads.append(a)
                    fr = fcls(reads, umi_hamming_distance=0, **fargs)
                    frags.append(fr)
                # build the molecule
                m = None
                try:
                    m = mcls(frags[0], taps=taps, reference=fasta, taps_strand=mol['taps_strand'],
                             **({'allow_unsafe_base_calls': True} if mol.get('unsafe') else {}))
                    for fr in frags[1:]:
                        if not m.add_fragment(fr):
                            ok = False
                    if not ok or not frags[0].is_valid():
                        out.label('skipped molecule: fragments not joinable / invalid')
                        continue
                    m.__finalise__()
                except Exception as e:
                    import traceback
                    tb = traceback.extract_tb(e.__traceback__)
                    inner = [fr_ for fr_ in tb if 'singlecellmultiomics' in fr_.filename]
                    out.bad('exception:%s:%s' % (type(e).__name__, inner[-1].name if inner else '?'),
                            'molecule %r raised %r' % ({k: v for k, v in mol.items() if k != 'frags'}, e))
                    continue
                exp = expected_calls(ref, mol)
                got_raw = m.methylation_call_dict
                if got_raw is None:
                    out.bad('no-call-dict', 'methylation_call_dict is None for %r' % ({k: v for k, v in mol.items() if k != 'frags'},))
                    continue
                cname = 'ctg%d' % mol['tid']
                got = {}
                for (c, p), dct in got_raw.items():
                    if c != cname:
                        out.bad('call-on-wrong-contig', '%r' % ((c, p),))
                    got[p] = (dct.get('consensus'), dct.get('context'))
                    if dct.get('reference_base') != mol['X']:
                        out.bad('wrong-reference-base-field', '%r' % (dct,))
                desc = 'cls=%s r1_rev=%r taps_strand=%s X=%s contig=%s' % (mol['cls'], mol['r1_rev'], mol['taps_strand'], mol['X'], cname)
                for p in sorted(set(got) | set(exp)):
                    g, e = got.get(p), exp.get(p)
                    if g == e:
                        continue
                    if e is None:
                        kind = 'call-not-on-convertible-reference-base' if ref[p].upper() != mol['X'] else 'call-outside-safe-span-or-without-majority'
                    elif g is None:
                        kind = 'expected-call-missing'
                    elif g[0] != e[0]:
                        kind = 'wrong-consensus-base'
                    elif g[1].lower() != e[1].lower():
                        kind = 'wrong-context-class'
                    else:
                        kind = 'wrong-conversion-case'
                    out.bad('dict:%s' % kind, '%s pos %d ref context %r: got %r expected %r' % (desc, p, ref[max(0, p - 2):p + 3], g, e))
                    break
                # read tags
                counts = {}
                for p, (b, letter) in exp.items():
                    counts[letter] = counts.get(letter, 0) + 1
                want_tags = {'MC': counts.get('Z', 0) + counts.get('X', 0) + counts.get('H', 0),
                             'uC': counts.get('z', 0) + counts.get('x', 0) + counts.get('h', 0),
                             'sZ': counts.get('Z', 0), 'sz': counts.get('z', 0), 'sX': counts.get('X', 0),
                             'sx': counts.get('x', 0), 'sH': counts.get('H', 0), 'sh': counts.get('h', 0)}
                letters_seen |= {l for l in counts if l != '.'}
                if not out.violations:
                    for fi, f in enumerate(mol['frags']):
                        for r, a in zip((f['r1'], f['r2']), frags[fi].reads):
                            if r is None:
                                continue
                            xm_exp = ''.join(exp.get(rp, (None, '.'))[1] for qp, rp in aligned_pairs(r['pos'], r['cigar']))
                            xm = a.get_tag('XM') if a.has_tag('XM') else None
                            if xm != xm_exp:
                                out.bad('XM:%s' % ('length' if xm is None or len(xm) != len(xm_exp) else 'content'),
                                        '%s read at %d %s: XM %r expected %r' % (desc, r['pos'], r['cigar'], xm, xm_exp))
                                break
                            for t, v in want_tags.items():
                                if not a.has_tag(t) or a.get_tag(t) != v:
                                    out.bad('count-tag', '%s tag %s = %r expected %r' % (desc, t, a.get_tag(t) if a.has_tag(t) else None, v))
                                    break
    finally:
        for p in (fa, fa + '.fai'):
            if os.path.exists(p):
                os.remove(p)
    seen = {}
    for s, msg in out.violations:
        seen.setdefault(s, msg)
    out.violations = list(seen.items())
    classes_hit = {l.lower() for l in letters_seen}
    out.nontrivial = any(l.isupper() for l in letters_seen) and any(l.islower() for l in letters_seen) and len(classes_hit) >= 2
    if case.get('deep'):
        out.nontrivial = out.nontrivial and len(case['mols'][0]['frags']) >= 256
        out.label('deep molecule: %d fragments' % len(case['mols'][0]['frags']))
    if len({m['tid'] for m in case['mols']}) == 2:
        out.label('two contigs share one TAPS instance')
    return out


def parts(tier):
    t = tier == 'thorough'
    return [Part('molecules', eval_case, strategy=strategy, examples=120000 if t else 2400),
            Part('deep', eval_case, strategy=deep_strategy, examples=1500 if t else 32)]
