"""C11 - count tables count exactly the reads passing the filters, at documented weights."""
import os
import io
import contextlib
from hypothesis import strategies as st
from ..core import Part, Outcome, scratch_dir
from ..common import counttable as ct
from ..common.bamsim import write_bam, cigar_ref_len

ID = 'C11'
LEVEL = 'exploration'
NONTRIVIAL_FLOOR = 0.15
RULE = ('Hypothesis-generated synthetic tagged BAMs (5..40 records, 1..3 contigs, arbitrary flag words, MAPQ 0..60, tags '
        'SM/DS/RC/RR/NH/XA/mp/NM/DA, CIGARs with I/D/S, unmapped reads, reads with unmapped mates) x an option namespace '
        'drawn from the whole switch space (r1only r2only dedup filterMP filterXA proper_pairs_only no_indels '
        'no_softclips max_base_edits minMQ divideMultimapping doNotDivideFragments, featureTags / joinedFeatureTags, '
        'bin/sliding/binTag/keepOverBounds, byValue, contig, bedfile, blacklist, two sample tags); '
        'create_count_table(return_df=True) is compared with an independent recount written from the option help texts. '
        'Non-trivial: >=1 read counted, >=1 read removed by a non-default filter and >=1 fractional weight.')
ASSUMPTIONS = ['every read has an SM tag (the pipeline guarantees it)', 'a read has at most one of XA / NH; XA in bwa format with trailing ;',
               'blacklist regions contain a read entirely or not at all; with --r2only all reads are paired',
               'byValue only with joined feature tags; --splitFeatures not generated', 'float tolerance 1e-9']

CIGARS = ['20M', '20M', '20M', '10M2I8M', '10M3D10M', '3S17M', '15M5S', '5M1I5M2D9M', '20M', '12M', '6M2I6M2D6M', '3S5M1I6M1D5M']


def strategy():
    @st.composite
    def case(draw):
        nc = draw(st.integers(1, 3))
        contigs = [['chr%d' % (i + 1) if i < 2 else 'chr3_alt', draw(st.integers(200, 2000))] for i in range(nc)]
        recs = []
        n = draw(st.integers(5, 40))
        for j in range(n):
            tid = draw(st.integers(0, nc - 1))
            cigar = draw(st.sampled_from(CIGARS))
            pos = draw(st.integers(0, contigs[tid][1] - 40))
            paired = draw(st.integers(0, 3)) > 0
            flag = 0
            if paired:
                flag |= 1 | draw(st.sampled_from([64, 128]))
                if draw(st.integers(0, 3)) == 0:
                    flag |= 8
                if draw(st.booleans()):
                    flag |= 2
                if draw(st.booleans()):
                    flag |= 32
            for bit, w in ((16, 2), (512, 8), (1024, 4), (256, 30), (2048, 30)):
                if draw(st.integers(0, w - 1)) == 0:
                    flag |= bit
            unmapped = draw(st.integers(0, 9)) == 0
            tags = {'SM': 'cell%d' % draw(st.integers(0, 2))}
            if draw(st.integers(0, 5)) > 0:
                tags['DS'] = draw(st.integers(0, contigs[tid][1] - 1))
            if draw(st.booleans()):
                tags['RC'] = draw(st.integers(0, 3))
            if draw(st.integers(0, 7)) == 0:
                tags['RR'] = 'NoSite'
            mm = draw(st.sampled_from(['none', 'none', 'NH', 'XA', 'XA_alt', 'XA_alt_first', 'XA_alts']))
            if mm == 'NH':
                tags['NH'] = draw(st.integers(1, 4))
            elif mm == 'XA':
                k = draw(st.integers(1, 3))
                tags['XA'] = ''.join('chr%d,+%d,20M,%d;' % (draw(st.integers(1, 2)), draw(st.integers(1, 500)), draw(st.integers(0, 2))) for _ in range(k))
            elif mm == 'XA_alt':
                tags['XA'] = 'chr9_alt,-%d,20M,1;' % draw(st.integers(1, 500))
            elif mm == 'XA_alt_first':
                tags['XA'] = 'chr1_KI270762v1_alt,+%d,20M,0;chr2,-%d,20M,1;' % (draw(st.integers(1, 500)), draw(st.integers(1, 500)))
            elif mm == 'XA_alts':
                tags['XA'] = 'chr1_KI270762v1_alt,+%d,20M,0;chr9_alt,-%d,20M,1;' % (draw(st.integers(1, 500)), draw(st.integers(1, 500)))
            if draw(st.booleans()):
                tags['mp'] = draw(st.sampled_from(['unique', 'unique', 'multi']))
            if draw(st.booleans()):
                tags['NM'] = draw(st.integers(0, 4))
            if draw(st.booleans()):
                # a float valued tag (all values exact in 32 bit floats): negative, fractional, and one printed in exponent notation
                tags['xv'] = draw(st.sampled_from([4.0, 2.5, -3.0, -1.5, 0.5, 0.0, 2.0 ** -20]))
            if draw(st.booleans()):
                tags['DA'] = draw(st.sampled_from(['a', 'b', 'a,b']))
            if draw(st.booleans()):
                tags['LY'] = draw(st.sampled_from(['lib1', 'lib2']))
            r = {'name': 'r%d' % j, 'flag': flag, 'tid': tid, 'pos': pos, 'mapq': draw(st.sampled_from([0, 1, 10, 20, 30, 60])),
                 'cigar': cigar, 'tags': tags, 'mtid': tid if paired else -1, 'mpos': pos if paired else -1}
            if unmapped and draw(st.integers(0, 2)) == 0:
                r['flag'] |= 4        # flagged unmapped but still carrying position and CIGAR (bwa: alignment hanging over a contig end)
            elif unmapped:
                r['flag'] |= 4
                r['cigar'] = None
                r['mapq'] = 0
                if draw(st.booleans()):
                    r['tid'], r['pos'] = -1, -1
                    r['mtid'], r['mpos'] = -1, -1
                r['qlen'] = 20
            recs.append(r)
        o = {}
        for sw, w in (('r1only', 6), ('r2only', 8), ('dedup', 2), ('filterMP', 5), ('filterXA', 4), ('proper_pairs_only', 5),
                      ('no_indels', 4), ('no_softclips', 4), ('divideMultimapping', 2), ('doNotDivideFragments', 2)):
            o[sw] = draw(st.integers(0, w - 1)) == 0
        if o['r1only'] and o['r2only']:
            o['r2only'] = False
        if o['r2only']:
            for r in recs:
                if not r['flag'] & 1:
                    r['flag'] |= 1 | 64
        o['minMQ'] = draw(st.sampled_from([0, 0, 1, 20, 30, 60]))
        o['max_base_edits'] = draw(st.sampled_from([None, None, 0, 2]))
        mode = draw(st.sampled_from(['joined', 'joined', 'single', 'binned', 'bed', 'byvalue']))
        feats = draw(st.lists(st.sampled_from(['chrom', 'DS', 'RC', 'NH', 'DA', 'mapping_quality']), min_size=1, max_size=2, unique=True))
        if mode == 'single':
            o['featureTags'] = ','.join(feats)
        else:
            o['joinedFeatureTags'] = ','.join(feats)
        if mode == 'binned':
            b = draw(st.sampled_from([10, 25, 100, 250]))
            o['bin'] = b
            o['sliding'] = draw(st.sampled_from([None, None, b // 2, b // 5]))
            o['binTag'] = 'DS'
            o['keepOverBounds'] = draw(st.booleans())
        if mode == 'byvalue':
            o['byValue'] = draw(st.sampled_from(['RC', 'NM', 'NH', 'xv', 'xv']))
            if feats == [o['byValue']]:
                # a table whose only feature is the value tag itself has no feature dimension left: not a sensible request
                o['joinedFeatureTags'] = 'chrom,' + o['byValue']
        if draw(st.integers(0, 3)) == 0:
            o['contig'] = contigs[draw(st.integers(0, nc - 1))][0]
        if draw(st.integers(0, 4)) == 0:
            o['sampleTags'] = 'SM,LY'
            for r in recs:
                r['tags'].setdefault('LY', 'lib1')    # every read carries its sample tags (pipeline guarantee)
        bed = None
        if mode == 'bed':
            bed = []
            for k in range(draw(st.integers(1, 3))):
                tid = draw(st.integers(0, nc - 1))
                s = draw(st.integers(0, contigs[tid][1] - 50))
                if draw(st.booleans()):
                    # a region that starts exactly where a read ends, or ends exactly where a read starts (abutting, no overlap)
                    src = recs[draw(st.integers(0, n - 1))]
                    if not src['flag'] & 4 and src['tid'] >= 0:
                        tid = src['tid']
                        s = src['pos'] + cigar_ref_len(src['cigar']) if draw(st.booleans()) else max(0, src['pos'] - 30)
                        e_ = s + 30 if s != max(0, src['pos'] - 30) else src['pos']
                        if e_ > s:
                            bed.append([contigs[tid][0], s, e_, 'region%d' % k])
                            continue
                bed.append([contigs[tid][0], s, s + draw(st.integers(1, 300)), 'region%d' % k])
        blacklist = None
        if draw(st.integers(0, 3)) == 0:
            blacklist = []
            for k in range(draw(st.integers(1, 3))):
                src = recs[draw(st.integers(0, n - 1))]
                if src['flag'] & 4 or src['tid'] < 0:
                    continue
                s = max(0, src['pos'] - draw(st.integers(0, 15)))
                e = src['pos'] + cigar_ref_len(src['cigar']) + draw(st.integers(1, 15))
                blacklist.append([contigs[src['tid']][0], s, e])
                if src['pos'] - s >= 6 and draw(st.booleans()):
                    # a short region nested in the head of the one just made (before the read it was built around)
                    blacklist.append([contigs[src['tid']][0], s + 1, s + 4])
            blacklist = [b for b in blacklist if unambiguous(b, recs, contigs)] or None
        second = None
        if draw(st.integers(0, 3)) == 0:
            # a second alignment file counted in the same call: the same reads under other cell names
            k = draw(st.integers(1, n))
            second = [dict(r, name='s%d' % i, tags=dict(r['tags'], SM='other%d' % (i % 2))) for i, r in enumerate(recs[:k])]
        # history: the same options object was used for an earlier call with --r1only / --r2only switched on
        prior = draw(st.sampled_from([None, None, None, None, 'r1only', 'r2only']))
        return {'contigs': contigs, 'records': recs, 'opts': o, 'bed': bed, 'blacklist': blacklist, 'second': second, 'prior': prior}
    return case()


def unambiguous(b, recs, contigs):
    """every mapped read on that contig is fully inside b or at least one base away from it"""
    for r in recs:
        if r['flag'] & 4 or r['tid'] < 0 or contigs[r['tid']][0] != b[0]:
            continue
        s, e = r['pos'], r['pos'] + cigar_ref_len(r['cigar'])
        inside = b[1] <= s and e <= b[2] - 1
        outside = e + 1 <= b[1] or s >= b[2] + 1
        if not (inside or outside):
            return False
    return True


def eval_case(case):
    from singlecellmultiomics.bamProcessing.bamToCountTable import create_count_table
    out = Outcome()
    contigs = [tuple(c) for c in case['contigs']]
    recs = case['records']
    o = dict(case['opts'])
    d = scratch_dir()
    pid = os.getpid()
    path = os.path.join(d, 'c11_%d.bam' % pid)
    files = [path, path + '.bai']
    try:
        write_bam(path, contigs, recs)
        args = dict(o)
        if case['bed']:
            bp = os.path.join(d, 'c11_%d.bed' % pid)
            with open(bp, 'w') as f:
                for c, s, e, nme in case['bed']:
                    f.write('%s\t%d\t%d\t%s\n' % (c, s, e, nme))
            args['bedfile'] = bp
            files.append(bp)
        if case['blacklist']:
            bl = os.path.join(d, 'c11_%d.blacklist.bed' % pid)
            with open(bl, 'w') as f:
                for c, s, e in case['blacklist']:
                    f.write('%s\t%d\t%d\n' % (c, s, e))
            args['blacklist'] = bl
            files.append(bl)
        exp = ct.recount(contigs, recs, o, bed=case['bed'], blacklist=case['blacklist'])
        ns = ct.make_args(path, args)
        if case.get('second'):
            path2 = os.path.join(d, 'c11_%d_second.bam' % pid)
            write_bam(path2, contigs, case['second'])
            files.extend([path2, path2 + '.bai'])
            ns.alignmentfiles = [path, path2]
            for k_, v_ in ct.recount(contigs, case['second'], o, bed=case['bed'], blacklist=case['blacklist']).items():
                exp[k_] = exp.get(k_, 0) + v_
            out.label('two alignment files')
        if case.get('prior') and not o.get('r1only') and not o.get('r2only'):
            try:
                setattr(ns, case['prior'], True)
                with contextlib.redirect_stdout(io.StringIO()):
                    create_count_table(ns, return_df=True)
            except Exception:
                pass
            setattr(ns, case['prior'], False)       # the caller switches the mate selection off again and counts once more
            out.label('options object reused')
        try:
            with contextlib.redirect_stdout(io.StringIO()):
                df = create_count_table(ns, return_df=True)
            got = ct.df_to_dict(df)
        except Exception as e:
            import traceback
            tb = [x for x in traceback.extract_tb(e.__traceback__) if 'singlecellmultiomics' in x.filename]
            active = sorted(k for k, v in o.items() if v not in (False, None, 0))
            if not exp and isinstance(e, ValueError) and 'new names' in str(e):
                return out.label('empty table with two sample tags raised (not part of the claim)')
            return out.bad('exception:%s:%s' % (type(e).__name__, tb[-1].name if tb else '?'), '%r with options %r' % (e, active))
    finally:
        for p in files:
            if os.path.exists(p):
                os.remove(p)
    # classification
    counted = [r for r in recs if not (r['flag'] & 4) and r['tid'] >= 0 and ct.passes_filters(r, o, case['blacklist'], contigs)]
    base = {k: v for k, v in o.items() if k in ('minMQ',)}
    removed = any(not (r['flag'] & 4) and not (r['flag'] & 512) and r['tid'] >= 0 and not ct.passes_filters(r, o, case['blacklist'], contigs)
                  for r in recs)
    frac = any(abs(v - round(v)) > 1e-9 for v in exp.values())
    out.nontrivial = bool(counted) and removed and frac
    for k in ('dedup', 'divideMultimapping', 'filterXA', 'r1only', 'r2only'):
        if o.get(k):
            out.label(k)
    diffs = ct.compare_tables(got, exp)
    if diffs:
        kind, key, g, e = diffs[0]
        active = sorted(k for k, v in o.items() if v not in (False, None, 0))
        # find the reads contributing to the differing cell for the message
        out.bad('table:%s:%s' % (kind, classify(o, case)), 'options %r: cell %r got %r expected %r (%d differing cells; totals got %.4f expected %.4f)' % (
            active, key, g, e, len(diffs), sum(got.values()), sum(exp.values())))
    return out


def classify(o, case):
    if case['bed']:
        return 'bed'
    if o.get('bin'):
        return 'binned'
    if o.get('byValue'):
        return 'byvalue'
    if o.get('divideMultimapping'):
        return 'multimapping-weight'
    if case['blacklist']:
        return 'blacklist'
    return 'joined' if o.get('joinedFeatureTags') else 'single'


def parts(tier):
    t = tier == 'thorough'
    return [Part('tables', eval_case, strategy=strategy, examples=200000 if t else 8000)]
