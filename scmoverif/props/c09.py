"""C09 - cut-site coordinates are correct and strand-symmetric."""
from hypothesis import strategies as st
from ..core import Part, Outcome
from ..common.fragsim import header, mk_read, revcomp

ID = 'C09'
LEVEL = 'exploration'
NONTRIVIAL_FLOOR = 0.5
RULE = ('Hypothesis-generated cuts on random references: NlaIII (CATG planted at a known coordinate) and scCHIC (known '
        'overhang base); each cut is materialised as a forward fragment AND as its mirror image on the reverse-'
        'complemented reference (a second PCR copy with other clips/length too); 0..6 soft-clipped bases at the read '
        'start, 0..3 at the read end, motif intact / one mismatch / shifted by one cycle, single end / mapped R2 / '
        'unmapped R2, options check_motif, allow_cycle_shift, invert_strand, no_umi_cigar_processing, trimmed and '
        'untrimmed CHIC layout. Oracle: the simulator\'s cut coordinate (absolute) and the mirror relation '
        'DS\' = L-4-DS (NlaIII) / L-1-DS (scCHIC), RS\' = not RS, equal validity and equal fragment equality. '
        'Non-trivial: clip > 0, mutated or shifted motif, or a non-default option. Part radius: 2..5 scCHIC cuts of one cell/UMI within an assignment radius (1..50) as one CHICMolecule, forward and mirrored: number of molecules equal, DS of every read mirrored, the site one of the cuts (non-trivial: >= 2 different cuts). Part no_overhang: NlaIII reads without the CATG (method nla_no_overhang) on a reference with planted motifs only, both strands, gaps 0..4 between motif and read, reads of opposite strands sharing a boundary coordinate, every read also mirrored on the reverse-complemented contig of the same FASTA handle; oracle: the CATG closest to the read within the 7 flanking reference bases. Part cli: small BAMs through bamtagmultiome with --no_umi_cigar_processing / --allow_cycle_shift / --no_restriction_motif_check; DS, RS and rejection of every read must equal what the fragment class computes with the same options (differential: command line vs API).')
ASSUMPTIONS = ['under no_umi_cigar_processing only the mirror relation is asserted',
               'with check_motif=False only intact / mismatched motifs are generated (a cycle shift is then undefined)',
               'trimmed scCHIC layout = exactly one base removed from the read start (SCCHIC_384w demultiplexer)']


def strategy():
    @st.composite
    def copy(draw):
        return {'rlen': draw(st.integers(12, 40)), 'clip5': draw(st.sampled_from([0, 0, 0, 1, 2, 3, 4, 5, 6])),
                'clip3': draw(st.sampled_from([0, 0, 0, 1, 3])),
                'r2': draw(st.sampled_from(['none', 'mapped', 'mapped', 'unmapped'])),
                'gap': draw(st.integers(0, 30)), 'r2len': draw(st.integers(10, 30)),
                # an insertion or deletion inside the read (away from the cut): reference and query length then differ
                'indel': draw(st.sampled_from([None, None, None, ['I', 1, 9], ['I', 2, 12], ['D', 1, 10], ['D', 3, 11]]))}

    @st.composite
    def case(draw):
        method = draw(st.sampled_from(['nla', 'nla', 'chic']))
        L = draw(st.integers(120, 400))
        ref = list(draw(st.lists(st.sampled_from('ACGT'), min_size=L, max_size=L)))
        site = draw(st.one_of(st.integers(10, L - 90), st.sampled_from([0, 0, 1, 2, 3])))     # also cuts at the very start of the contig
        # (scCHIC: the site is the base before the overhang base: a molecule starting on the first base of the contig has site -1,
        # its mirror image site L)
        if method == 'nla':
            ref[site:site + 4] = list('CATG')
        motif = 'intact'
        opts = {}
        if method == 'nla':
            motif = draw(st.sampled_from(['intact', 'intact', 'intact', 'mm0', 'mm1', 'mm2', 'mm3', 'shift', 'shift']))
            opts['check_motif'] = draw(st.sampled_from([True, True, True, False]))
            opts['allow_cycle_shift'] = draw(st.booleans())
            if not opts['check_motif'] and motif == 'shift':
                motif = 'intact'
        else:
            opts['trimmed'] = draw(st.booleans())
        opts['invert_strand'] = draw(st.sampled_from([False, False, True]))
        opts['no_umi_cigar_processing'] = draw(st.sampled_from([False, False, False, True]))
        mmbase = draw(st.sampled_from('ACGT'))
        return {'method': method, 'ref': ''.join(ref), 'site': site, 'motif': motif, 'mmbase': mmbase, 'opts': opts,
                'copies': [draw(copy()), draw(copy())]}
    return case()


def forward_reads(case, cp):
    """Plain description of R1/R2 in forward orientation: dicts with pos (aligned start), cigar, seq, reverse."""
    ref, s = case['ref'], case['site']
    rlen, c5, c3 = cp['rlen'], cp['clip5'], cp['clip3']
    if case['method'] == 'nla':
        a0 = s + (1 if case['motif'] == 'shift' else 0)
        seq = list(ref[a0:a0 + rlen])
        if case['motif'].startswith('mm'):
            j = int(case['motif'][2])
            b = case['mmbase']
            if b == 'CATG'[j]:
                b = {'C': 'G', 'A': 'T', 'T': 'A', 'G': 'C'}[b]
            seq[j] = b
            if ''.join(seq[:4]).startswith('ATG'):
                seq[3] = 'C' if seq[3] != 'C' else 'A'   # keep it a mismatch, never a look-alike of a cycle shift
    else:
        a0 = s + (1 if case['opts']['trimmed'] else 0)
        seq = list(ref[a0:a0 + rlen])
    rlen = len(seq)
    c5 = min(c5, rlen - 6)
    c3 = min(c3, rlen - c5 - 5)
    m = rlen - c5 - c3
    cigar = ('%dS' % c5 if c5 else '') + '%dM' % m + ('%dS' % c3 if c3 else '')
    ind = cp.get('indel')
    if ind:
        kind, k, off = ind
        if c5 + 3 <= off <= rlen - c3 - 3 - k and a0 + rlen + k + 2 < len(ref):
            if kind == 'I':
                seq = seq[:off] + ['A'] * k + seq[off:rlen - k]
                m1, m2 = off - c5, rlen - c3 - off - k
            else:
                seq = seq[:off] + list(ref[a0 + off + k:a0 + off + k + (rlen - off)])
                m1, m2 = off - c5, rlen - c3 - off
            cigar = ('%dS' % c5 if c5 else '') + '%dM%d%s%dM' % (m1, k, kind, m2) + ('%dS' % c3 if c3 else '')
    r1 = {'pos': a0 + c5, 'cigar': cigar, 'seq': ''.join(seq), 'reverse': False}
    r2 = None
    if cp['r2'] != 'none':
        p2 = min(len(ref) - cp['r2len'], a0 + rlen + cp['gap'])
        r2 = {'pos': p2, 'cigar': '%dM' % cp['r2len'], 'seq': ref[p2:p2 + cp['r2len']], 'reverse': True,
              'unmapped': cp['r2'] == 'unmapped'}
    return r1, r2


def mirror_read(r, L):
    import re
    ops = re.findall(r'(\d+)([MIDNS])', r['cigar'])
    reflen = sum(int(n) for n, o in ops if o in 'MDN')
    out = dict(r)
    out['pos'] = L - (r['pos'] + reflen)
    out['cigar'] = ''.join('%s%s' % (n, o) for n, o in reversed(ops))
    out['seq'] = revcomp(r['seq'])
    out['reverse'] = not r['reverse']
    return out


def build_fragment(case, r1, r2, name):
    from singlecellmultiomics.fragment import NlaIIIFragment, CHICFragment
    L = len(case['ref'])
    h = header([('chrT', L)])
    o = case['opts']
    tags = {}
    if case['method'] == 'chic':
        tags['lh'] = 'TA'
        if o['trimmed']:
            tags['MX'] = 'scCHIC384C8U3'
    paired = r2 is not None
    a1 = mk_read(h, name, 0, r1['pos'], r1['seq'], reverse=r1['reverse'], cigar=r1['cigar'], paired=paired, read2=False,
                 mate=((0, r2['pos'], r2['reverse'], r2.get('unmapped', False)) if paired else None), tags=tags)
    a2 = None
    if paired:
        if r2.get('unmapped'):
            a2 = mk_read(h, name, 0, r1['pos'], r2['seq'], reverse=False, paired=True, read2=True,
                         mate=(0, r1['pos'], r1['reverse'], False), unmapped=True, tags=tags)
        else:
            a2 = mk_read(h, name, 0, r2['pos'], r2['seq'], reverse=r2['reverse'], cigar=r2['cigar'], paired=True, read2=True,
                         mate=(0, r1['pos'], r1['reverse'], False), tags=tags)
    if case['method'] == 'nla':
        f = NlaIIIFragment([a1, a2], umi_hamming_distance=0, check_motif=o['check_motif'], allow_cycle_shift=o['allow_cycle_shift'],
                           invert_strand=o['invert_strand'], no_umi_cigar_processing=o['no_umi_cigar_processing'])
    else:
        f = CHICFragment([a1, a2], umi_hamming_distance=0, invert_strand=o['invert_strand'],
                         no_umi_cigar_processing=o['no_umi_cigar_processing'])
    return f, a1


def observe(f, a1):
    return {'valid': bool(f.is_valid()), 'DS': a1.get_tag('DS') if a1.has_tag('DS') else None,
            'RS': a1.get_tag('RS') if a1.has_tag('RS') else None, 'qcfail': bool(a1.is_qcfail)}


def eval_case(case):
    out = Outcome()
    L = len(case['ref'])
    o = case['opts']
    meth = case['method']
    k = 4 if meth == 'nla' else 1
    obs = []
    frs = []
    try:
        for ci, cp in enumerate(case['copies']):
            r1, r2 = forward_reads(case, cp)
            ff, a = build_fragment(case, r1, r2, 'f%d' % ci)
            m1, m2 = mirror_read(r1, L), (mirror_read(r2, L) if r2 else None)
            fr, b = build_fragment(case, m1, m2, 'r%d' % ci)
            obs.append((observe(ff, a), observe(fr, b), cp))
            frs.append((ff, fr))
    except Exception as e:
        import traceback
        tb = [x for x in traceback.extract_tb(e.__traceback__) if 'singlecellmultiomics' in x.filename]
        return out.bad('%s:exception:%s:%s' % (meth, type(e).__name__, tb[-1].name if tb else 'harness'), repr(e))
    site = case['site']
    exp_fwd = site if meth == 'nla' else site - 1
    exp_valid = True
    if meth == 'nla':
        if case['motif'].startswith('mm') and o['check_motif']:
            exp_valid = False
        if case['motif'] == 'shift' and not o['allow_cycle_shift']:
            exp_valid = False
    classes = []
    for of, orv, cp in obs:
        clip = cp['clip5'] > 0
        cls = '%s%s%s' % ('clip' if clip else 'noclip', ':' + case['motif'] if case['motif'] != 'intact' else '',
                          ':nocigar' if o['no_umi_cigar_processing'] else '')
        classes.append(cls)
        # ---- mirror relation (always claimed)
        if of['valid'] != orv['valid']:
            out.bad('%s:mirror:validity-differs:%s' % (meth, cls), 'forward %r mirrored %r copy %r opts %r motif %s' % (of, orv, cp, o, case['motif']))
            continue
        if of['valid']:
            if of['DS'] is None or orv['DS'] is None:
                out.bad('%s:valid-without-DS:%s' % (meth, cls), 'forward %r mirrored %r' % (of, orv))
                continue
            if orv['DS'] != L - k - of['DS']:
                out.bad('%s:mirror:site-not-mirrored:%s' % (meth, cls), 'L=%d forward DS %r mirrored DS %r expected %r; copy %r opts %r motif %s' % (
                    L, of['DS'], orv['DS'], L - k - of['DS'], cp, o, case['motif']))
            if of['RS'] is not None and orv['RS'] is not None and bool(of['RS']) == bool(orv['RS']):
                out.bad('%s:mirror:strand-not-flipped:%s' % (meth, cls), 'forward RS %r mirrored RS %r' % (of['RS'], orv['RS']))
        # ---- absolute oracle
        if o['no_umi_cigar_processing'] and (cp['clip5'] or cp['clip3']):
            continue
        for orient, ob, exp in (('fwd', of, exp_fwd), ('rev', orv, L - k - exp_fwd)):
            if ob['valid'] != exp_valid:
                out.bad('%s:abs:%s:%s:%s' % (meth, 'accepted-without-motif' if ob['valid'] else 'rejected-with-motif', orient, cls),
                        'site %d expected valid=%r got %r; copy %r opts %r motif %s' % (site, exp_valid, ob, cp, o, case['motif']))
            elif exp_valid and ob['DS'] != exp:
                out.bad('%s:abs:wrong-site:%s:%s' % (meth, orient, cls), 'expected DS %d got %r (L=%d cut %d); copy %r opts %r motif %s' % (
                    exp, ob['DS'], L, site, cp, o, case['motif']))
            elif exp_valid:
                want_rs = (orient == 'rev') != bool(o['invert_strand'])
                if ob['RS'] is not None and bool(ob['RS']) != want_rs:
                    out.bad('%s:abs:wrong-strand:%s' % (meth, orient), 'RS %r expected %r opts %r' % (ob['RS'], want_rs, o))
            elif not exp_valid and (ob['DS'] is not None or not ob['qcfail']):
                out.bad('%s:abs:rejected-but-%s:%s' % (meth, 'has-site' if ob['DS'] is not None else 'not-qcfail', orient),
                        'got %r; copy %r opts %r motif %s' % (ob, cp, o, case['motif']))
    # ---- both orientations deduplicate alike
    try:
        eq_f = bool(frs[0][0] == frs[1][0])
        eq_r = bool(frs[0][1] == frs[1][1])
        if eq_f != eq_r:
            out.bad('%s:mirror:equality-differs' % meth, 'two copies of one cut: forward equal=%r mirrored equal=%r; %r' % (eq_f, eq_r, obs))
        elif exp_valid and not (o['no_umi_cigar_processing'] and any(c['clip5'] or c['clip3'] for c in case['copies'])) \
                and all(x[0]['valid'] for x in obs) and not eq_f:
            out.bad('%s:abs:copies-of-one-cut-not-equal' % meth, '%r' % (obs,))
    except Exception as e:
        out.bad('%s:exception-eq:%s' % (meth, type(e).__name__), repr(e))
    seen = {}
    for s, m in out.violations:
        seen.setdefault(s, m)
    out.violations = list(seen.items())
    out.nontrivial = any(c != 'noclip' for c in classes) or o.get('invert_strand') or o.get('trimmed') or \
        (meth == 'nla' and (not o['check_motif'] or o['allow_cycle_shift']))
    out.label(*['%s:%s' % (meth, c) for c in set(classes)])
    return out


# ------------------------------------------------------------------ scCHIC molecules with an assignment radius

def radius_strategy():
    @st.composite
    def case(draw):
        L = draw(st.integers(150, 400))
        ref = ''.join(draw(st.lists(st.sampled_from('ACGT'), min_size=L, max_size=L)))
        radius = draw(st.sampled_from([1, 2, 5, 10, 50]))
        base = draw(st.integers(5, L - 90))
        n = draw(st.integers(2, 5))
        cuts = [base] + [base + draw(st.one_of(st.integers(0, radius), st.integers(0, 2 * radius + 3))) for _ in range(n - 1)]
        cuts = [min(c, L - 45) for c in cuts]
        order = draw(st.permutations(list(range(n))))
        frs = [{'site': cuts[i], 'rlen': draw(st.integers(15, 40)), 'trimmed': draw(st.booleans())} for i in order]
        return {'ref': ref, 'radius': radius, 'frags': frs}
    return case()


def eval_radius(case):
    """Several scCHIC cuts of one cell / UMI within the assignment radius form one molecule that carries ONE site; the same
    cuts mirrored onto the reverse strand of the reverse-complemented reference must give the mirrored site on every read
    (which of the cuts it is, is not asserted) and the same number of molecules."""
    from singlecellmultiomics.fragment import CHICFragment
    from singlecellmultiomics.molecule import CHICMolecule
    out = Outcome()
    L = len(case['ref'])
    h = header([('chrT', L)])
    res = {}
    try:
        for orient in ('fwd', 'rev'):
            mols = []
            reads = []
            for i, f in enumerate(case['frags']):
                a0 = f['site'] + (1 if f['trimmed'] else 0)
                r = {'pos': a0, 'cigar': '%dM' % f['rlen'], 'seq': case['ref'][a0:a0 + f['rlen']], 'reverse': False}
                r['cigar'] = '%dM' % len(r['seq'])
                if orient == 'rev':
                    r = mirror_read(r, L)
                tags = {'lh': 'TA'}
                if f['trimmed']:
                    tags['MX'] = 'scCHIC384C8U3'
                a = mk_read(h, '%s%d' % (orient, i), 0, r['pos'], r['seq'], reverse=r['reverse'], cigar=r['cigar'], tags=tags)
                fr = CHICFragment([a, None], umi_hamming_distance=0, assignment_radius=case['radius'])
                reads.append(a)
                for m in mols:
                    if m.add_fragment(fr, use_hash=True):
                        break
                else:
                    mols.append(CHICMolecule(fr))
            for m in mols:
                m.write_tags()
            res[orient] = (len(mols), [a.get_tag('DS') if a.has_tag('DS') else None for a in reads],
                           [a.get_tag('RS') if a.has_tag('RS') else None for a in reads])
    except Exception as e:
        import traceback
        tb = [x for x in traceback.extract_tb(e.__traceback__) if 'singlecellmultiomics' in x.filename]
        return out.bad('radius:exception:%s:%s' % (type(e).__name__, tb[-1].name if tb else 'harness'), repr(e))
    (nf, dsf, rsf), (nr, dsr, rsr) = res['fwd'], res['rev']
    if nf != nr:
        out.bad('radius:mirror:number-of-molecules-differs', 'forward %d molecules, mirrored %d; cuts %r radius %d' % (nf, nr, [f['site'] for f in case['frags']], case['radius']))
    else:
        for i, (a, b) in enumerate(zip(dsf, dsr)):
            if a is None or b is None:
                if (a is None) != (b is None):
                    out.bad('radius:mirror:site-missing-on-one-strand', 'read %d: forward DS %r mirrored DS %r' % (i, a, b))
                continue
            if b != L - 1 - a:
                out.bad('radius:mirror:site-not-mirrored', 'read %d of a molecule over cuts %r (radius %d): forward DS %r, mirrored DS %r, expected %r' % (
                    i, sorted(f['site'] - 1 for f in case['frags']), case['radius'], a, b, L - 1 - a))
                break
        cuts = {f['site'] - 1 for f in case['frags']}
        if nf == 1 and dsf[0] is not None and (len(set(dsf)) != 1 or dsf[0] not in cuts):
            out.bad('radius:molecule-site-is-not-one-of-its-cuts', 'DS %r cuts %r' % (dsf, sorted(cuts)))
    out.nontrivial = len({f['site'] for f in case['frags']}) >= 2
    out.label('molecules:%d' % nf)
    return out


# ------------------------------------------------------------------ NlaIII without the overhang in the read

def no_overhang_strategy():
    @st.composite
    def case(draw):
        L = draw(st.integers(120, 300))
        ref = list(draw(st.lists(st.sampled_from('ACGT'), min_size=L, max_size=L)))
        s = ''.join(ref).replace('CATG', 'CTTG')      # no accidental motifs
        ref = list(s)
        nsite = draw(st.integers(1, 4))
        sites = sorted(draw(st.lists(st.integers(12, L - 16), min_size=nsite, max_size=nsite, unique=True)))
        sites = [x for i, x in enumerate(sites) if i == 0 or x - sites[i - 1] >= 4]
        for x in sites:
            ref[x:x + 4] = list('CATG')
        frags = []
        for _ in range(draw(st.integers(1, 6))):
            # a read next to a site (gap 0..4 between the CATG and the read; 4 is just too far), or anywhere, or sharing
            # its boundary coordinate with another read on the opposite strand
            kind = draw(st.sampled_from(['near', 'near', 'any', 'abut']))
            rev = draw(st.booleans())
            ln = draw(st.integers(10, 30))
            if kind == 'near' or not frags:
                x = draw(st.sampled_from(sites))
                gap = draw(st.integers(0, 4))
                start = (x + 4 + gap) if not rev else (x - gap - ln)
            elif kind == 'any':
                start = draw(st.integers(8, L - 40))
            else:
                o = frags[draw(st.integers(0, len(frags) - 1))]
                rev = not o['rev']
                start = (o['start'] + o['len']) if not rev else (o['start'] - ln)     # a + read starting where a - read ends, or vice versa
            start = max(8, min(L - ln - 8, start))
            frags.append({'start': start, 'len': ln, 'rev': rev})
        return {'ref': ''.join(ref), 'frags': frags}
    return case()


def expected_no_overhang(ref, start, end, rev):
    """site of the CATG closest to the read within the 7 reference bases outside the read start, or None"""
    if not rev:
        flank = ref[start - 7:start]
        k = flank.rfind('CATG')
        return None if k < 0 else start - 7 + k
    flank = ref[end:end + 7]
    k = flank.find('CATG')
    return None if k < 0 else end + k


def eval_no_overhang(case):
    import os
    import pysam
    from ..core import scratch_dir
    from singlecellmultiomics.fragment import NlaIIIFragment
    out = Outcome()
    ref = case['ref']
    L = len(ref)
    fa = os.path.join(scratch_dir(), 'c09_%d.fa' % os.getpid())
    from ..common.fragsim import write_fasta
    write_fasta(fa, [('chrT', ref), ('chrM', revcomp(ref))])
    h = header([('chrT', L), ('chrM', L)])
    hit = False
    try:
        with pysam.FastaFile(fa) as fasta:
            for i, f in enumerate(case['frags']):
                for tid, mirrored in ((0, False), (1, True)):
                    start, rev = f['start'], f['rev']
                    if mirrored:
                        start, rev = L - (f['start'] + f['len']), not f['rev']
                    src = ref if not mirrored else revcomp(ref)
                    seq = src[start:start + f['len']]
                    a = mk_read(h, 'n%d_%d' % (i, tid), tid, start, seq, reverse=rev, cigar='%dM' % len(seq))
                    try:
                        fr = NlaIIIFragment([a, None], umi_hamming_distance=0, no_overhang=True, reference=fasta)
                    except Exception as e:
                        import traceback
                        tb = [x for x in traceback.extract_tb(e.__traceback__) if 'singlecellmultiomics' in x.filename]
                        out.bad('no_overhang:exception:%s:%s' % (type(e).__name__, tb[-1].name if tb else 'harness'), repr(e))
                        continue
                    exp = expected_no_overhang(src, start, start + len(seq), rev)
                    ob = observe(fr, a)
                    where = 'no_overhang:%s' % ('rev' if rev else 'fwd')
                    if exp is None:
                        if ob['valid'] or ob['DS'] is not None:
                            out.bad('%s:accepted-without-motif-next-to-the-read' % where, 'read %d-%d %s: %r; flank has no CATG' % (start, start + len(seq), 'rev' if rev else 'fwd', ob))
                    else:
                        hit = True
                        if not ob['valid']:
                            out.bad('%s:rejected-with-motif-next-to-the-read' % where, 'read %d-%d: CATG at %d; %r' % (start, start + len(seq), exp, ob))
                        elif ob['DS'] != exp:
                            out.bad('%s:wrong-site' % where, 'read %d-%d: CATG at %d, DS %r' % (start, start + len(seq), exp, ob['DS']))
                        elif ob['RS'] is not None and bool(ob['RS']) != rev:
                            out.bad('%s:wrong-strand' % where, 'RS %r' % ob['RS'])
    finally:
        for p_ in (fa, fa + '.fai'):
            if os.path.exists(p_):
                os.remove(p_)
    seen = {}
    for s_, m_ in out.violations:
        seen.setdefault(s_, m_)
    out.violations = list(seen.items())
    out.nontrivial = hit and len(case['frags']) >= 2
    return out


# ------------------------------------------------------------------ the command line forwards the fragment options

def cli_strategy():
    @st.composite
    def case(draw):
        method = draw(st.sampled_from(['nla', 'chic', 'chic']))
        L = draw(st.integers(600, 1500))
        ref = list(draw(st.lists(st.sampled_from('ACGT'), min_size=L, max_size=L)))
        frags = []
        for i in range(draw(st.integers(1, 6))):
            site = 40 + i * 90 + draw(st.integers(0, 20))
            if site > L - 120:
                break
            rev = draw(st.booleans())
            if method == 'nla':
                ref[site:site + 4] = list('CATG')
            frags.append({'site': site, 'rev': rev, 'rlen': draw(st.integers(20, 40)), 'clip5': draw(st.sampled_from([0, 0, 1, 2, 3, 6])),
                          'shift': method == 'nla' and draw(st.integers(0, 4)) == 0, 'trimmed': draw(st.booleans())})
        opts = {'no_umi_cigar_processing': draw(st.booleans()), 'allow_cycle_shift': method == 'nla' and draw(st.booleans()),
                'no_restriction_motif_check': method == 'nla' and draw(st.integers(0, 3)) == 0}
        return {'method': method, 'ref': ''.join(ref), 'frags': frags, 'opts': opts}
    return case()


def eval_cli(case):
    """bamtagmultiome with the fragment options on the command line must tag every read 1 with the site (DS), strand (RS) and
    rejection state that the fragment class itself computes with these options."""
    import os
    import shutil
    import pysam
    from ..core import scratch_dir
    from ..common.bamsim import write_bam
    from ..common import tagrun
    from singlecellmultiomics.fragment import NlaIIIFragment, CHICFragment
    out = Outcome()
    ref, L, meth, o = case['ref'], len(case['ref']), case['method'], case['opts']
    if not case['frags']:
        return out
    d = os.path.join(scratch_dir(), 'c09cli_%d' % os.getpid())
    shutil.rmtree(d, ignore_errors=True)
    os.makedirs(d)
    try:
        recs = []
        for i, f in enumerate(case['frags']):
            a0 = f['site'] + (1 if f['shift'] else 0) if meth == 'nla' else f['site'] + (1 if f['trimmed'] else 0)
            seq = ref[a0:a0 + f['rlen']]
            c5 = min(f['clip5'], len(seq) - 8)
            r = {'pos': a0 + c5, 'cigar': ('%dS' % c5 if c5 else '') + '%dM' % (len(seq) - c5), 'seq': seq, 'reverse': False}
            if f['rev']:
                # the same cut seen from the other strand of the SAME reference: reverse read ending at the cut
                end = f['site'] + 4 if meth == 'nla' else f['site']
                s0 = end - f['rlen']
                seq = ref[s0:end]
                r = {'pos': s0, 'cigar': '%dM' % (len(seq) - c5) + ('%dS' % c5 if c5 else ''), 'seq': seq, 'reverse': True}
            tags = {'SM': 'cell%d' % i, 'RX': 'ACG', 'BC': 'AAACCCGG', 'MI': 'AAACCCGGACG%d' % i}
            if meth == 'chic':
                tags['lh'] = 'TA'
                if f['trimmed']:
                    tags['MX'] = 'scCHIC384C8U3'
            recs.append({'name': 'q%d' % i, 'flag': 16 if r['reverse'] else 0, 'tid': 0, 'pos': r['pos'], 'mapq': 60, 'cigar': r['cigar'],
                         'seq': r['seq'], 'tags': tags, 'mtid': -1, 'mpos': -1})
        bam_in, bam_out = os.path.join(d, 'in.bam'), os.path.join(d, 'out.bam')
        write_bam(bam_in, [('chrT', L)], recs)
        extra = ['-umi_hamming_distance', '0']
        for k_, v in o.items():
            if v:
                extra.append('--' + k_)
        try:
            tagrun.run_tagger(bam_in, bam_out, meth, extra=extra)
        except BaseException as e:
            return out.bad('cli:exception:%s' % type(e).__name__, repr(e)[:300])
        kw = {'umi_hamming_distance': 0, 'no_umi_cigar_processing': o['no_umi_cigar_processing']}
        if meth == 'nla':
            kw.update(allow_cycle_shift=o['allow_cycle_shift'], check_motif=not o['no_restriction_motif_check'])
        fcls = NlaIIIFragment if meth == 'nla' else CHICFragment
        want = {}
        with pysam.AlignmentFile(bam_in) as f:
            for r in f:
                fr = fcls([r, None], **kw)
                want[r.query_name] = observe(fr, r)
        with pysam.AlignmentFile(bam_out) as f:
            got = {r.query_name: {'valid': not r.is_qcfail, 'DS': r.get_tag('DS') if r.has_tag('DS') else None,
                                  'RS': r.get_tag('RS') if r.has_tag('RS') else None} for r in f}
        for name in sorted(want):
            w, g = want[name], got.get(name)
            if g is None:
                out.bad('cli:record-missing', name)
                continue
            if bool(w['valid']) != bool(g['valid']):
                out.bad('cli:%s:validity-differs-from-the-fragment-class' % meth, '%s: command line %r, fragment class with the same options %r; options %r' % (name, g, w, o))
            elif w['valid'] and (w['DS'] != g['DS'] or (w['RS'] is not None and g['RS'] is not None and bool(w['RS']) != bool(g['RS']))):
                out.bad('cli:%s:site-differs-from-the-fragment-class' % meth, '%s: command line %r, fragment class with the same options %r; options %r' % (name, g, w, o))
        out.nontrivial = any(f['clip5'] for f in case['frags']) and any(o.values())
        out.label(*['cli:%s' % k_ for k_, v in o.items() if v])
    finally:
        shutil.rmtree(d, ignore_errors=True)
    seen = {}
    for s_, m_ in out.violations:
        seen.setdefault(s_, m_)
    out.violations = list(seen.items())
    return out


def parts(tier):
    t = tier == 'thorough'
    return [Part('cuts', eval_case, strategy=strategy, examples=600000 if t else 12000),
            Part('radius', eval_radius, strategy=radius_strategy, examples=60000 if t else 2000),
            Part('no_overhang', eval_no_overhang, strategy=no_overhang_strategy, examples=60000 if t else 2000),
            Part('cli', eval_cli, strategy=cli_strategy, examples=6000 if t else 160)]
