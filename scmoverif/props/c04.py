"""C04 - read-name encoding round-trips: FASTQ header -> BAM tags restores every field."""
import itertools
import pysam
from hypothesis import strategies as st
from ..core import Part, Outcome, scratch_dir
from ..common import demuxsim as ds
from . import c02

ID = 'C04'
LEVEL = 'exploration'
NONTRIVIAL_FLOOR = 0.2
RULE = ('Part codec: exhaustive enumeration of the quality codec over all 94 phred characters and all 94^2 pairs '
        '(encode must be total and saturate at the top of the 52-letter table, decode(encode(q)) = min(q,51)). Part '
        'roundtrip: Hypothesis-generated accepted pairs of every strategy with phred characters over the full 33..126 '
        'range, library names over [A-Za-z0-9_-] of length 1..230 (headers cross the 254/255 limit) and header variants '
        '(11-field Illumina with known / 1-mismatch / numeric index, 7-field short, 3-DEC); the header written by asFastq '
        'becomes the name of a pysam.AlignedSegment, QueryNameFlagger.digest decodes it, and every encoded field plus '
        'SM, MI and the new read name are compared with the demultiplexer\'s values. An over-long header must be refused '
        'with an exception (by the demultiplexer or the BAM layer), never stored shortened. Non-trivial: decoded tags '
        'include RX/RQ and one of: a quality >= 52, a non-default header variant, a corrected barcode or index, a header '
        'within 10 characters of the limit.')
ASSUMPTIONS = ['header-safe library names; read names reach the tagger unchanged', 'the leading @ of a FASTQ header line is syntax, not part of the instrument name',
               'integer-valued tags are compared through str()']


def codec_cases():
    chars = [chr(c) for c in range(33, 127)]
    yield ['single', ''.join(chars)]
    for a in chars:
        yield ['pairs', a]


def eval_codec(case):
    from singlecellmultiomics.modularDemultiplexer.baseDemultiplexMethods import phredToFastqHeaderSafeQualities, fastqHeaderSafeQualitiesToPhred
    out = Outcome(nontrivial=True)
    chars = [chr(c) for c in range(33, 127)]
    strings = [c for c in case[1]] if case[0] == 'single' else [case[1] + b for b in chars]
    for s in strings:
        try:
            enc = phredToFastqHeaderSafeQualities(s, method=3)
        except Exception as e:
            out.bad('codec:encode-not-total:%s' % type(e).__name__, 'phred string %r (values %r) raised %r' % (s, [ord(c) - 33 for c in s], e))
            break
        if enc != ds.phred_to_safe(s):
            out.bad('codec:wrong-encoding', '%r -> %r expected %r' % (s, enc, ds.phred_to_safe(s)))
            break
        if any(c not in ds.LETTERS for c in enc):
            out.bad('codec:not-header-safe', '%r -> %r' % (s, enc))
            break
        try:
            dec = fastqHeaderSafeQualitiesToPhred(enc, method=3)
        except Exception as e:
            out.bad('codec:decode-raises', '%r: %r' % (enc, e))
            break
        want = ''.join(chr(min(ord(c) - 33, 51) + 33) for c in s)
        if dec != want:
            out.bad('codec:roundtrip', '%r -> %r -> %r expected %r' % (s, enc, dec, want))
            break
    out.label('strings:%d' % len(strings))
    return out


def strategy():
    base = c02.strategy(c02.NAMES)

    @st.composite
    def case(draw):
        c = draw(base)
        # full phred range
        for r in c['reads']:
            n = len(r['qual'])
            kind = draw(st.sampled_from(['low', 'full', 'full', 'edge']))
            if kind == 'full':
                r['qual'] = ''.join(chr(x) for x in draw(st.lists(st.integers(33, 126), min_size=n, max_size=n)))
            elif kind == 'edge':
                r['qual'] = ''.join(draw(st.lists(st.sampled_from('!TUV~IJ'), min_size=n, max_size=n)))
        ln = draw(st.one_of(st.integers(1, 40), st.integers(1, 230), st.integers(60, 120)))
        c['lib'] = ''.join(draw(st.lists(st.sampled_from('abcXYZ019_-'), min_size=ln, max_size=ln)))
        c['header'] = draw(st.sampled_from(['illumina', 'illumina', 'index_mismatch', 'numeric_index', 'short7', '3dec']))
        return c
    return case()


def strategies_illu(case):
    loader, strategies, bp, ip, _ = ds.get_loader(scratch_dir(), case['hd'])
    return strategies['ILLU']


def eval_roundtrip(case):
    from singlecellmultiomics.fastqProcessing.fastqIterator import FastqRecord
    from singlecellmultiomics.universalBamTagger.universalBamTagger import QueryNameFlagger
    from singlecellmultiomics.modularDemultiplexer.baseDemultiplexMethods import NonMultiplexable, TagDefinitions
    out = Outcome()
    records, meta = c02.materialise(case)
    if records is None:
        return out.label('skipped')
    name = case['strategy']
    s = meta['strategy']
    # header variants
    recs = []
    for m, r in enumerate(records):
        serial = case['serial']
        idx = meta['index_seq']
        hv = case['header']
        if hv == 'index_mismatch':
            idx = ('A' if idx[0] != 'A' else 'C') + idx[1:]
            h = '@NS500:12:HFLOWXX:2:1101:%d:7 %d:N:0:%s' % (serial, m + 1, idx)
        elif hv == 'numeric_index':
            h = '@NS500:12:HFLOWXX:2:1101:%d:7 %d:N:0:%d' % (serial, m + 1, 1 + serial % 9)
        elif hv == 'short7':
            h = '@NS500:12:HFLOWXX:2:1101:%d:7' % serial
        elif hv == '3dec':
            h = '@Cluster_s_2_1101_%d' % serial
        else:
            h = r.header
        recs.append(FastqRecord(h, r.sequence, r.plus, r.qual))
    try:
        tagged = s.demultiplex(list(recs), library=case['lib'])
    except NonMultiplexable:
        return out.label('rejected:%s' % name)
    except ValueError as e:
        if 'longer than 255' in str(e) and len(case['lib']) > 100:
            return out.label('refused by demultiplexer')
        return out.bad('demux-exception:ValueError', '%s header %s lib length %d: %r' % (name, case['header'], len(case['lib']), str(e)[:200]))
    except Exception as e:
        import traceback
        tb = [x for x in traceback.extract_tb(e.__traceback__) if 'singlecellmultiomics' in x.filename]
        return out.bad('demux-exception:%s:%s' % (type(e).__name__, tb[-1].name if tb else '?'), '%s header %s: %r' % (name, case['header'], e))
    if not isinstance(tagged, (list, tuple)):
        tagged = [tagged]
    high_q = any(ord(c) - 33 >= 52 for r in case['reads'] for c in r['qual'])
    near_limit = False
    has_umi = False
    corrected = False
    flagger = QueryNameFlagger()      # one instance for all reads of the case, as MoleculeIterator uses it
    bulk = []
    if name != 'ILLU' and len(case['lib']) < 60:
        try:
            bulk = [x for x in strategies_illu(case).demultiplex(list(recs), library=case['lib'])]
        except Exception:
            bulk = []
    for tr in list(tagged) + bulk:
        if isinstance(tr, str):
            header_line = tr.split('\n')[0]
            tags = ds.header_tags(header_line) or {}
            header = header_line
        else:
            tags = dict(tr.tags)
            # the writers (FastqHandle.write) serialise with str(record): what they put on disk must be the asFastq record,
            # and a refusal by asFastq must reach them as an exception, not as some other text
            try:
                written = str(tr)
            except Exception as e:
                written = e
            try:
                direct = tr.asFastq()
            except Exception as e:
                direct = e
            if isinstance(direct, Exception) != isinstance(written, Exception) or (not isinstance(direct, Exception) and written != direct):
                out.bad('written-text-differs-from-asFastq' if not isinstance(direct, Exception) else 'refusal-swallowed-on-the-writer-path',
                        'asFastq: %r; str(record), which FastqHandle.write puts into the file: %r' % (str(direct)[:80], str(written)[:80]))
            try:
                header = tr.asFastq().split('\n')[0]
            except ValueError as e:
                # refusal by the demultiplexer: legitimate only for a header that really is too long
                true_len = len(';'.join('%s:%s' % (k, v) for k, v in tr.tags.items() if not TagDefinitions[k].doNotWrite))
                if true_len <= 254:
                    out.bad('header-refused-although-it-fits', 'length %d: %r' % (true_len, e))
                else:
                    out.label('refused by demultiplexer')
                    near_limit = near_limit or true_len <= 265
                continue
        qname = header[1:]
        if abs(len(qname) - 254) <= 10:
            near_limit = True
        seg = pysam.AlignedSegment()
        try:
            seg.query_name = qname
        except Exception as e:
            if len(qname) <= 254:
                out.bad('bam-layer-refused-a-name-that-fits', 'length %d: %r' % (len(qname), e))
            elif not isinstance(tr, str):
                # asFastq has an explicit length check whose purpose is exactly this: it must refuse what cannot be stored
                out.bad('demultiplexer-wrote-a-header-that-cannot-be-stored', 'header of %d characters was written by asFastq; the BAM layer refuses it (%r)' % (len(qname), e))
            else:
                out.label('refused by BAM layer')
            continue
        if seg.query_name != qname:
            out.bad('name-stored-shortened', 'header of %d characters stored as %d characters' % (len(qname), len(seg.query_name or '')))
            continue
        seg.query_sequence = 'ACGT'
        seg.flag = 4
        try:
            flagger.digest([seg])
        except Exception as e:
            import traceback
            tb = [x for x in traceback.extract_tb(e.__traceback__) if 'singlecellmultiomics' in x.filename]
            out.bad('decode-exception:%s:%s' % (type(e).__name__, tb[-1].name if tb else '?'), 'name %r: %r' % (qname[:120], e))
            continue
        got = {k: v for k, v in seg.get_tags()}
        if isinstance(tr, str) and name != 'ILLU':
            # bulk-encoded read decoded after single-cell reads by the same flagger: nothing may be inherited
            own = {kv.split(':', 1)[0] for kv in qname.split(';')}
            stale = sorted(k for k in got if k not in own and k not in ('SM', 'MI', 'QM', 'RG', 'BK', 'ah', 'bi'))
            if stale:
                out.bad('stale-field-from-an-earlier-read', 'bulk read decoded after a %s read carries %r which its name does not contain' % (name, {k: got[k] for k in stale}))
            if got.get('SM') != '%s_BULK' % case['lib']:
                out.bad('stale-sample-on-bulk-read', 'SM %r expected %r' % (got.get('SM'), '%s_BULK' % case['lib']))
            continue
        # every written header field
        for kv in qname.split(';'):
            k, v = kv.split(':', 1)
            if TagDefinitions[k].isPhred:
                want = ds.safe_to_phred(v)
            else:
                want = v.lstrip('@') if k == 'Is' else v
            if k in ('BI',):
                continue
            if str(got.get(k)) != str(want):
                out.bad('field-not-restored:%s' % k, '%s: header has %s:%r, decoded tag is %r' % (name, k, v, got.get(k)))
        # every tag of the demultiplexer's record that is meant to be written (also 0 valued ones) comes back
        for k, v in tags.items():
            if k not in TagDefinitions or TagDefinitions[k].doNotWrite or v is None or v == '' or k in ('BI',):
                continue
            want = ds.safe_to_phred(str(v)) if TagDefinitions[k].isPhred else (str(v).lstrip('@') if k == 'Is' else str(v))
            if k not in got:
                out.bad('field-of-the-record-not-in-the-read-name:%s' % k, '%s: demultiplexer tag %s=%r is absent after decoding (header %r...)' % (name, k, v, qname[:80]))
            elif str(got[k]) != want and not TagDefinitions[k].isPhred:
                out.bad('field-not-restored:%s' % k, '%s: demultiplexer tag %s=%r, decoded %r' % (name, k, v, got[k]))
        # qualities of the UMI against the ORIGINAL input qualities (layout table strategies)
        lay = ds.LAYOUT.get(name)
        if lay and 'umi' in lay and 'RQ' in got:
            m, st_, ln = lay['umi']
            orig = recs[m].qual[st_:st_ + ln]
            want = ''.join(chr(min(ord(c) - 33, 51) + 33) for c in orig)
            if got['RQ'] != want:
                out.bad('RQ-not-original-phred', '%s: input UMI qualities %r, decoded RQ %r, expected %r' % (name, orig, got['RQ'], want))
        # the sequencing index as it stood in the input header (raw, aa) and its whitelisted correction (aA)
        if case['header'] in ('illumina', 'index_mismatch') and 'aa' in got:
            raw_idx = meta['index_seq']
            if case['header'] == 'index_mismatch':
                raw_idx = ('A' if raw_idx[0] != 'A' else 'C') + raw_idx[1:]
            if got['aa'] != raw_idx:
                out.bad('raw-index-not-the-index-of-the-input-header', '%s: decoded aa %r, the input header carried %r (decoded aA %r)' % (name, got['aa'], raw_idx, got.get('aA')))
            elif 'aA' in got and got['aA'] != meta['index_seq']:      # strategies without an index parser (CHICTV) write aa only
                out.bad('corrected-index-not-the-whitelisted-index', '%s: decoded aA %r, whitelisted index %r' % (name, got.get('aA'), meta['index_seq']))
        if 'RX' in got:
            has_umi = True
        # raw and corrected cell barcode against the bases the harness put into the read and the whitelist
        if meta['raw_bc'] is not None and 'bc' in got and name not in ('DamID2andT_3u4b3u4b', 'DamID2andT_3u4b3u6b', 'DamAndT'):
            wl_all = dict(ds.whitelist(meta['bp'], meta['alias']))
            if got['bc'] != meta['raw_bc']:
                out.bad('raw-barcode-not-the-bases-of-the-read', '%s: decoded bc %r, bases in the read %r (decoded BC %r)' % (name, got['bc'], meta['raw_bc'], got.get('BC')))
            elif got.get('BC') not in wl_all:
                out.bad('cell-barcode-not-whitelisted', '%s: decoded BC %r (raw %r)' % (name, got.get('BC'), meta['raw_bc']))
            elif str(got.get('bi')) != str(wl_all[got['BC']]):
                out.bad('cell-index-not-the-index-of-the-barcode', '%s: BC %r bi %r whitelist index %r' % (name, got['BC'], got.get('bi'), wl_all[got['BC']]))
        if 'bi' in tags:
            if got.get('SM') != '%s_%s' % (case['lib'], tags['bi']):
                out.bad('SM-not-library_cellindex', 'SM %r, library %r bi %r' % (got.get('SM'), case['lib'], tags['bi']))
            mi = ''.join(str(tags[k]) for k in ('BC', 'RX', 'aA') if tags.get(k) is not None)
            if 'aA' in tags and got.get('MI') != mi:
                out.bad('MI-not-barcode+umi+index', 'MI %r expected %r' % (got.get('MI'), mi))
        want_name = ':'.join(str(tags.get(k, '')).lstrip('@') for k in ('Is', 'RN', 'Fc', 'La', 'Ti', 'CX', 'CY'))
        if seg.query_name != want_name:
            out.bad('name-not-illumina-coordinates', 'name %r expected %r' % (seg.query_name, want_name))
        if tags.get('bc') != tags.get('BC') or (tags.get('aa') is not None and tags.get('aa') != tags.get('aA')):
            corrected = True
    seen = {}
    for sg, msg in out.violations:
        seen.setdefault(sg, msg)
    out.violations = list(seen.items())
    out.nontrivial = has_umi and (high_q or case['header'] != 'illumina' or corrected or near_limit)
    out.label('header=%s' % case['header'])
    if near_limit:
        out.label('header near the length limit')
    return out


def parts(tier):
    t = tier == 'thorough'
    return [
        Part('codec', eval_codec, cases=codec_cases, exhaustive=True),
        Part('roundtrip', eval_roundtrip, strategy=strategy, examples=400000 if t else 6000),
    ]
