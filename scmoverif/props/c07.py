"""C07 - molecule partition is independent of the buffer-ejection schedule."""
from hypothesis import strategies as st
from ..core import Part, Outcome
from ..common.fragsim import header, mk_read

ID = 'C07'
LEVEL = 'exploration'
NONTRIVIAL_FLOOR = 0.15
RULE = ('Hypothesis-generated coordinate-sorted in-memory fragment lists (n<=14 quick part / n<=40 large part; NlaIII, '
        'scCHIC and plain Fragment classes; 1..3 cells; duplicates arriving after unrelated molecules; short and long '
        'fragments; 1..2 contigs). For every input ALL schedules check_eject_every in {None,0..n} x pooling_method {0,1} '
        'are run (exhaustive over schedules) and each partition is compared with the never-eject partition; every '
        'fragment must be emitted exactly once. Half of the cases without bridging cap the fragments per molecule (1..3): the first cap fragments of a class form the molecule, each later duplicate is an overflow singleton, for every schedule. In 3/7 of the cases every schedule runs on an iterator object that was looked at before (first 0..2 molecules, then abandoned). A quarter of the plain cases contain a bridging fragment that matches two buffered molecules (shares its start with one and its end with the other): there each pooling method is compared with its own never-eject partition; every '
        'fragment must be emitted exactly once. Part wide: spans up to cache_size-1, kept only when in_domain() holds. Non-trivial: some schedule ejected a molecule before the end of the '
        'input while a further fragment was still to come, and the input has a molecule with >=2 fragments.')
ASSUMPTIONS = ['input sorted by fragment start; every fragment span < cache_size/4 (strict reading of "shorter than the cache radius"), or (part wide) any span < cache_size provided no fragment ends more than cache_size/2 beyond the current extent of a molecule that still has fragments to come',
               'UMIs compared exactly (hamming 0); equality classes are clean: same (cell, site/start, strand, UMI)',
               'plain Fragment inputs: distinct molecules of one (cell,strand,UMI) differ in start and end by more than the radius (0) or lie on different contigs']

CONTIGS = [('chr1', 100000), ('chr2', 100000)]
UMIS = ['AAA', 'AAC', 'CCC', 'GTA']


def strategy(max_n, wide=False):
    @st.composite
    def case(draw):
        kind = draw(st.sampled_from(['nla', 'chic', 'plain', 'plain']))
        cache = draw(st.sampled_from([80, 120, 200, 400, 1000]))
        # wide: spans up to the cache size itself; such inputs are kept only when in_domain() holds
        maxspan = (cache - 1) if wide else (cache // 4 - 1)
        ncontig = draw(st.sampled_from([1, 1, 2]))
        nmol = draw(st.integers(1, max(1, max_n // 2)))
        mols = []
        used = set()
        for m in range(nmol):
            tid = draw(st.integers(0, ncontig - 1))
            # positions clustered so that molecules are within / just beyond the ejection margin of each other
            pos = cache + 200 + draw(st.integers(0, 6)) * (cache // 2) + draw(st.integers(0, cache))
            if kind == 'plain' and draw(st.integers(0, 7)) == 0:
                pos = draw(st.sampled_from([0, 0, 1, 2]))      # molecules on the very first bases of a contig
            strand = draw(st.booleans())
            cell = 'cell%d' % draw(st.integers(0, 2))
            umi = draw(st.sampled_from(UMIS))
            ln_twin = None
            if ncontig > 1 and mols and draw(st.integers(0, 3)) == 0:
                # the same coordinates, cell, strand and UMI as an earlier molecule, on the other contig
                src = mols[draw(st.integers(0, len(mols) - 1))]
                tid, pos, strand, cell, umi, ln_twin = 1 - src['tid'], src['pos'], src['rev'], src['cell'], src['umi'], src['len']
            key = (tid, pos, strand, cell, umi)
            if key in used:
                continue
            if kind == 'plain':
                # clean classes: unique start and unique end per (cell,strand,umi) group -> unique start per group,
                # all copies share one length
                if any(k[0] == tid and k[3] == cell and k[4] == umi and k[2] == strand and abs(k[1] - pos) <= maxspan + 1 for k in used):
                    continue
            used.add(key)
            ncopies = draw(st.sampled_from([1, 1, 2, 2, 3, 4]))
            ln = draw(st.integers(8, max(8, maxspan)))
            if ln_twin is not None:
                ln = ln_twin
            mols.append({'tid': tid, 'pos': pos, 'rev': strand, 'cell': cell, 'umi': umi, 'copies': ncopies, 'len': ln})
        frags = []
        for mi, m in enumerate(mols):
            for c in range(m['copies']):
                if kind == 'plain':
                    ln = m['len']
                    start = m['pos']
                else:
                    ln = draw(st.integers(8, max(8, maxspan)))
                    # site anchored: forward reads start at the site, reverse reads end at it
                    start = m['pos'] if not m['rev'] else m['pos'] - ln
                frags.append({'mol': mi, 'tid': m['tid'], 'start': start, 'len': ln, 'rev': m['rev'], 'cell': m['cell'],
                              'umi': m['umi'], 'tie': draw(st.integers(0, 1000))})
        ambiguous = False
        if kind == 'plain' and mols and draw(st.integers(0, 3)) == 0:
            # plain fragments are compared by start OR end: a second molecule of the same cell/strand/UMI that overlaps an
            # earlier one without sharing an end with it, plus a fragment that shares its start with one and its end with
            # the other. Which molecule the bridge joins is decided by arrival order; the never-eject run defines it.
            a = mols[draw(st.integers(0, len(mols) - 1))]
            d = draw(st.integers(1, max(1, a['len'] - 8)))
            lnb = draw(st.integers(8, max(8, maxspan)))
            if a['pos'] + d + lnb != a['pos'] + a['len'] and a['len'] - d >= 1:
                mi = len(mols)
                mols.append(dict(a, pos=a['pos'] + d, len=lnb, copies=1))
                for c in range(draw(st.integers(1, 2))):
                    frags.append({'mol': mi, 'tid': a['tid'], 'start': a['pos'] + d, 'len': lnb, 'rev': a['rev'], 'cell': a['cell'],
                                  'umi': a['umi'], 'tie': draw(st.integers(0, 1000))})
                for c in range(draw(st.integers(1, 2))):
                    frags.append({'mol': a_index(mols, a), 'tid': a['tid'], 'start': a['pos'] + d, 'len': a['len'] - d, 'rev': a['rev'],
                                  'cell': a['cell'], 'umi': a['umi'], 'tie': draw(st.integers(0, 1000))})
                ambiguous = True
        frags = frags[:max_n]
        frags.sort(key=lambda f: (f['tid'], f['start'], f['tie']))
        for i, f in enumerate(frags):
            f['name'] = 'r%d_m%d' % (i, f['mol'])
            del f['tie']
        # a cap on the fragments per molecule: further duplicates are emitted as single-fragment 'overflow' molecules
        # (not combined with bridging fragments: whether a bridging fragment overflows depends on which full molecule is still
        # buffered, which the never-eject labels cannot express)
        cap = draw(st.sampled_from([None, None, None, 1, 2, 3]))
        if ambiguous:
            cap = None
        peek = draw(st.sampled_from([None, None, None, None, 0, 1, 2]))
        return {'kind': kind, 'cache': cache, 'frags': frags, 'ambiguous': ambiguous, 'cap': cap, 'peek': peek}
    return case()


def a_index(mols, a):
    return [i for i, m in enumerate(mols) if m is a][0]


def build_reads(case):
    h = header(CONTIGS)
    reads = []
    for f in case['frags']:
        ln = f['len']
        if case['kind'] == 'nla':
            fill = ('ACGT' * (ln // 4 + 1))[:ln - 4]
            seq = ('CATG' + fill) if not f['rev'] else (fill + 'CATG')
        else:
            seq = ('ACGT' * (ln // 4 + 1))[:ln]
        reads.append([mk_read(h, f['name'], f['tid'], max(0, f['start']), seq, reverse=f['rev'], sample=f['cell'], umi=f['umi']), None])
    return reads


def classes(kind):
    from singlecellmultiomics.fragment import Fragment, NlaIIIFragment, CHICFragment
    from singlecellmultiomics.molecule import Molecule, NlaIIIMolecule, CHICMolecule
    return {'nla': (NlaIIIMolecule, NlaIIIFragment), 'chic': (CHICMolecule, CHICFragment), 'plain': (Molecule, Fragment)}[kind]


def run_schedule(case, every, pooling):
    """Returns (partition as sorted list of sorted name tuples, emission log [(n_consumed, names)])."""
    from singlecellmultiomics.molecule import MoleculeIterator
    mc, fcls = classes(case['kind'])
    consumed = [0]

    def source():
        for r in build_reads(case):
            consumed[0] += 1
            yield r
    log = []
    peek = case.get('peek')
    src = source() if peek is None else build_reads(case)        # a list can be iterated twice
    it = MoleculeIterator(src, molecule_class=mc, fragment_class=fcls, perform_qflag=False,
                          check_eject_every=every, pooling_method=pooling,
                          molecule_class_args=dict({'cache_size': case['cache']}, **({'max_associated_fragments': case['cap']} if case.get('cap') else {})),
                          fragment_class_args={'umi_hamming_distance': 0})
    if peek is not None:
        # history: the same iterator object was looked at before (first `peek` molecules, then abandoned)
        for i, m in enumerate(it):
            if i >= peek:
                break
        consumed[0] = len(src)
    for m in it:
        names = tuple(sorted(r.query_name for fr in m for r in fr if r is not None))
        log.append((consumed[0], names))
    return sorted(n for _, n in log), log


def in_domain(case):
    """Operational form of 'fragments shorter than the cache radius': at no point of the input does a fragment end
    more than cache_size/2 beyond the current extent of a molecule that still has fragments to come (the documented
    ejection margin of Molecule.can_be_yielded). Schedule independent. Always true for spans < cache_size/4."""
    c = case['cache']
    total = {}
    for f in case['frags']:
        total[f['mol']] = total.get(f['mol'], 0) + 1
    seen = {}
    for f in case['frags']:
        s0, e0 = max(0, f['start']), max(0, f['start']) + f['len']
        m = seen.setdefault(f['mol'], [0, s0, e0, f['tid']])
        m[0] += 1
        m[1] = min(m[1], s0)
        m[2] = max(m[2], e0)
        for mol, (cnt, ms, me, tid) in seen.items():
            if cnt < total[mol]:
                if tid != f['tid'] or e0 > me + c * 0.5 or e0 < ms - c * 0.5:
                    return False
    return True


def eval_case(case):
    if case.get('ambiguous'):
        return eval_ambiguous(case)
    return eval_clean(case)


def eval_ambiguous(case):
    """A fragment matches two buffered molecules (plain fragments are compared by start OR end): the first matching
    molecule in arrival order takes it. The two pooling methods match differently by design here (against every fragment of a
    molecule / against the molecule as a whole), so each pooling method is compared with its OWN never-eject partition,
    and that partition also supplies the molecule labels of the precondition."""
    out = Outcome()
    n = len(case['frags'])
    if n == 0:
        return out
    early = False
    multi = False
    for pooling in (0, 1):
        try:
            ref, _ = run_schedule(case, None, pooling)
        except Exception as e:
            return out.bad('exception:never-eject:%s' % type(e).__name__, repr(e))
        label = {nm: gi for gi, g in enumerate(ref) for nm in g}
        labelled = dict(case, frags=[dict(f, mol=label[f['name']]) for f in case['frags']])
        if not in_domain(labelled):
            out.label('out of domain (a pending duplicate lies beyond the ejection margin)')
            continue
        multi = multi or any(len(g) >= 2 for g in ref)
        early = compare_schedules(labelled, ref, [pooling], out, ':bridged') or early
    _dedup(out)
    out.nontrivial = early and multi
    out.label('kind=plain', 'fragment matching two molecules (arrival order decides)')
    return out


def compare_schedules(case, ref, poolings, out, suffix=''):
    n = len(case['frags'])
    all_names = sorted(f['name'] for f in case['frags'])
    early = False
    for pooling in poolings:
        for every in [None] + list(range(0, n + 1)):
            try:
                part, log = run_schedule(case, every, pooling)
            except Exception as e:
                out.bad('exception:%s' % type(e).__name__, 'every=%r pooling=%d: %r' % (every, pooling, e))
                continue
            emitted = sorted(x for g in part for x in g)
            if any(c < n for c, _ in log):
                early = True
            if emitted != all_names:
                lost = sorted(set(all_names) - set(emitted))
                dup = sorted({x for x in emitted if emitted.count(x) > 1})
                out.bad('fragment-%s:pooling%d' % ('lost' if lost else 'duplicated', pooling),
                        'every=%r pooling=%d lost=%r duplicated=%r' % (every, pooling, lost, dup))
            elif part != ref:
                split = [g for g in ref if g not in part]
                out.bad('partition-differs:pooling%d:%s%s' % (pooling, case['kind'] if case['kind'] == 'plain' else 'hashed', suffix),
                        'every=%r pooling=%d cache=%d: got %r, never-eject gives %r; affected %r' % (
                            every, pooling, case['cache'], part, ref, split))
    return early


def _dedup(out):
    seen = {}
    for s, m in out.violations:
        seen.setdefault(s, m)
    out.violations = list(seen.items())


def eval_clean(case):
    out = Outcome()
    n = len(case['frags'])
    if n == 0:
        return out
    if not in_domain(case):
        return out.label('out of domain (a pending duplicate lies beyond the ejection margin)')
    if any(f['len'] >= case['cache'] // 4 for f in case['frags']):
        out.label('wide spans in domain')
    try:
        ref, _ = run_schedule(case, None, 1)
    except Exception as e:
        return out.bad('exception:never-eject:%s' % type(e).__name__, repr(e))
    multi = any(len(g) >= 2 for g in ref)
    # the reference itself must be the clean ground truth partition (guards the generator's "clean classes" claim)
    truth = {}
    for f in case['frags']:
        truth.setdefault(f['mol'], []).append(f['name'])
    if case.get('cap'):
        capped = []
        for v in truth.values():       # v is in arrival order
            capped.append(v[:case['cap']])
            capped.extend([x] for x in v[case['cap']:])
        truth = sorted(tuple(sorted(v)) for v in capped)
    else:
        truth = sorted(tuple(sorted(v)) for v in truth.values())
    if ref != truth:
        tid_of = {f['name']: f['tid'] for f in case['frags']}
        if any(len({tid_of[x] for x in g}) > 1 for g in ref):
            # not a generator problem: fragments of different contigs in one molecule; the schedules below show the dependence
            out.bad('molecule-joins-fragments-of-different-contigs:%s' % case['kind'], 'never-eject partition %r, truth %r' % (ref, truth))
        else:
            out.bad('never-eject-differs-from-truth:%s' % case['kind'], 'reference %r truth %r' % (ref, truth))
            return out
    early = compare_schedules(case, ref, (0, 1), out)
    _dedup(out)
    out.nontrivial = early and multi
    out.label('kind=%s' % case['kind'], 'schedules:%d' % (2 * (n + 2)))
    if early:
        out.label('early ejection happened')
    return out


def parts(tier):
    t = tier == 'thorough'
    return [
        Part('small', eval_case, strategy=lambda: strategy(14), examples=120000 if t else 3000),
        Part('large', eval_case, strategy=lambda: strategy(40), examples=18000 if t else 320),
        Part('wide', eval_case, strategy=lambda: strategy(14, wide=True), examples=120000 if t else 3000),
    ]
