"""C01 - demultiplexing conserves every read pair (demultiplexed XOR rejected)."""
import os
import io
import gzip
import shutil
import contextlib
import collections
from hypothesis import strategies as st
from ..core import Part, Outcome, scratch_dir
from ..common import demuxsim as ds
from . import c02

ID = 'C01'
LEVEL = 'exploration'
NONTRIVIAL_FLOOR = 0.3
RULE = ('Hypothesis-generated FASTQ libraries of 1..40 read pairs for one selected strategy (every registered strategy '
        'is drawn): per pair a class (whitelisted / 1-mismatch / 2-mismatch / random barcode / read truncated inside the '
        'barcode+UMI prefix / empty read / N-rich), inserts 0..150, qualities over the full Sanger range 33..126, header '
        'variants (Illumina with known / mismatching / unknown / numeric index, short 7-field, 3-DEC, already '
        'demultiplexed), a unique serial per pair; configuration: paired or single end (including the wrong arity for the '
        'strategy), with / without rejects handle, joint or one-file-per-cell output with small handle limits, '
        'maxReadPairs cut-off, Hamming expansion 0/1, gzip or plain input. The library is run through '
        'DemultiplexingStrategyLoader.demultiplex with real FastqHandles; all produced FASTQ files are parsed by an '
        'independent reader. Oracle: demultiplexed + rejected serials = consumed inputs, each exactly once; mates '
        'index-synchronised and in input order; rejects carry RR and the original bases/qualities; counters and log agree '
        'with the files. Non-trivial: >=1 accepted and >=1 rejected pair, or a quality >= 52, or a cut-off that bites.')
ASSUMPTIONS = ['FASTQ files are well formed (4 lines per record, equal record counts per mate)', 'library names <= 40 characters',
               'which pairs are accepted is not predicted, only that the two sinks partition the input', 'ILLU (bulk) is not combined with one-file-per-cell output']

CLASSES = ['ok', 'ok', 'ok', 'mm1', 'mm2', 'random', 'truncated', 'empty', 'nrich']
HEADERS = ['illumina', 'illumina', 'illumina', 'index_mismatch', 'index_unknown', 'numeric_index', 'short7', '3dec', 'scmo']


def strategy():
    @st.composite
    def case(draw):
        name = draw(st.sampled_from(c02.NAMES))
        n = draw(st.integers(1, 40))
        pairs = []
        base_idx = draw(st.integers(0, 10 ** 6))
        ncell = draw(st.sampled_from([1, 2, 4, 8, 400]))
        for i in range(n):
            p = draw(c02.strategy([name]))
            p['bc_idx'] = base_idx + draw(st.integers(0, ncell - 1))     # several pairs per cell: per-cell files get reopened
            p['serial'] = i + 1
            p['cls'] = draw(st.sampled_from(CLASSES))
            p['header'] = draw(st.sampled_from(HEADERS))
            qk = draw(st.sampled_from(['low', 'low', 'full']))
            if qk == 'full':
                for r in p['reads']:
                    ln = len(r['qual'])
                    r['qual'] = ''.join(chr(x) for x in draw(st.lists(st.integers(33, 126), min_size=ln, max_size=ln)))
            p['trunc'] = draw(st.integers(0, 12))
            pairs.append(p)
        hd = draw(st.sampled_from([0, 0, 1]))
        for p in pairs:
            p['hd'] = hd
        cfg = {'strategy': name, 'hd': hd, 'single_end_input': draw(st.sampled_from([False, False, False, True])),
               'rejects': draw(st.sampled_from([True, True, False])), 'per_cell': draw(st.sampled_from([False, False, True])),
               'maxHandles': draw(st.integers(1, 6)), 'pruneEvery': draw(st.integers(1, 20)),
               'maxReadPairs': draw(st.sampled_from([None, None, None, 1, 2, n, n + 2, max(1, n // 2)])),
               'gz': draw(st.booleans()), 'lib': draw(st.sampled_from(['libA', 'my-lib_2', 'L' * 40])),
               'final_newline': draw(st.sampled_from([True, True, False])), 'no_log': draw(st.sampled_from([False, False, False, True])),
               'rerun': draw(st.sampled_from([False, False, False, True])), 'sep': draw(st.sampled_from(['/', '/', '//', '/./'])),
               'lanes': draw(st.integers(1, 2)), 'chunks': draw(st.integers(1, 3)), 'file_list': draw(st.booleans()),
               'file_order': draw(st.lists(st.integers(0, 5), min_size=0, max_size=6)), 'o_slash': draw(st.booleans())}
        if name == 'ILLU':
            cfg['per_cell'] = False
        return {'cfg': cfg, 'pairs': pairs}
    return case()


def build_library(case):
    """list of input records per pair: [(header, seq, qual) per mate]"""
    from singlecellmultiomics.fastqProcessing.fastqIterator import FastqRecord
    cfg = case['cfg']
    lib = []
    for p in case['pairs']:
        q = dict(p)
        q['mismatch'] = 1 if p['cls'] in ('mm1', 'mm2') else None
        q['hd'] = 1 if p['cls'] in ('mm1', 'mm2') else p['hd']   # materialise only mutates the barcode when hd == 1
        recs, meta = c02.materialise(q)
        if recs is None:
            return None
        recs = [list(r) for r in recs]
        bcpos = sorted(meta['bc_positions'])
        if p['cls'] == 'mm2' and bcpos:
            m, pos = bcpos[-1]
            s = recs[m][1]
            recs[m][1] = s[:pos] + ('A' if s[pos] != 'A' else 'C') + s[pos + 1:]
        elif p['cls'] == 'random' and bcpos:
            for m, pos in bcpos:
                s = recs[m][1]
                recs[m][1] = s[:pos] + 'ACGT'[(pos * 7 + p['serial']) % 4] + s[pos + 1:]
        elif p['cls'] == 'truncated':
            m = bcpos[0][0] if bcpos else 0
            recs[m][1] = recs[m][1][:p['trunc']]
            recs[m][3] = recs[m][3][:p['trunc']]
        elif p['cls'] == 'empty':
            m = p['serial'] % len(recs)
            recs[m][1] = ''
            recs[m][3] = ''
        elif p['cls'] == 'nrich':
            for r in recs:
                r[1] = ''.join('N' if i % 3 == 0 else c for i, c in enumerate(r[1]))
        idx = meta['index_seq']
        out = []
        for m, r in enumerate(recs):
            serial = p['serial']
            hv = p['header']
            if hv == 'index_mismatch':
                i2 = ('A' if idx[0] != 'A' else 'C') + idx[1:]
                h = '@NS500:12:HFLOWXX:2:1101:%d:7 %d:N:0:%s' % (serial, m + 1, i2)
            elif hv == 'index_unknown':
                h = '@NS500:12:HFLOWXX:2:1101:%d:7 %d:N:0:%s' % (serial, m + 1, 'GGGGGGGGGGGG')
            elif hv == 'numeric_index':
                h = '@NS500:12:HFLOWXX:2:1101:%d:7 %d:N:0:%d' % (serial, m + 1, 1 + serial % 9)
            elif hv == 'short7':
                h = '@NS500:12:HFLOWXX:2:1101:%d:7' % serial
            elif hv == '3dec':
                h = '@Cluster_s_2_%d_%d' % (serial, serial)   # the pair number is not written to the header, the tile is
            elif hv == 'scmo':
                h = '@Is:NS500;RN:12;Fc:HFLOWXX;La:2;Ti:1101;CX:%d;CY:7;Fi:N;CN:0;aa:%s;aA:%s;aI:1' % (serial, idx.replace('+', ''), idx.replace('+', ''))
            else:
                h = '@NS500:12:HFLOWXX:2:1101:%d:7 %d:N:0:%s' % (serial, m + 1, idx)
            out.append((h, r[1], r[3]))
        lib.append(out)
    return lib


def serial_of_header(h):
    t = ds.header_tags(h)
    if t and 'CX' in t:
        try:
            return int(t['CX'])
        except ValueError:
            return None
    if t and 'RP' in t and 'Ti' in t and t.get('CX') == '-1':
        return None
    body = h[1:] if h.startswith('@') else h
    body = body.split(';RR:')[0]
    if body.startswith('Cluster_s_'):
        return int(body.split('_')[3])
    f = body.replace(' ', ':').split(':')
    if len(f) >= 7:
        try:
            return int(f[5])
        except ValueError:
            return None
    return None


def serial_of_record(rec):
    h = rec[0]
    t = ds.header_tags(h)
    if t and t.get('CX') == '-1' and 'Ti' in t:
        try:
            return int(t['Ti'])      # 3-DEC headers carry the serial in the tile field
        except ValueError:
            return None
    return serial_of_header(h)


def run_cli(case, lib, d, with_rejects):
    """the same library through the demux.py command line in a subprocess"""
    import subprocess
    import sys
    import singlecellmultiomics.modularDemultiplexer as md
    cfg = case['cfg']
    nm = 1 if (cfg['single_end_input'] or len(lib[0]) == 1) else 2
    indir = os.path.join(d, 'in_%s' % ('rej' if with_rejects else 'norej'))
    os.makedirs(indir)
    files = []
    lanes, chunks = cfg.get('lanes', 1), cfg.get('chunks', 1)
    if lanes * chunks > len(lib):
        lanes, chunks = 1, 1
    if lanes * chunks == 1:
        blocks = [('mylib_R%d.fastq.gz', lib)]
    else:
        # the lane is split into chunk files; the library is cut into contiguous blocks in (lane, chunk) order
        k, per = lanes * chunks, len(lib) // (lanes * chunks)
        blocks = []
        for b in range(k):
            part = lib[b * per:(b + 1) * per] if b < k - 1 else lib[b * per:]
            blocks.append(('mylib_L%03d_R%%d_%03d.fastq.gz' % (b // chunks + 1, b % chunks + 1), part))
    for m in range(nm):
        for pat, part in blocks:
            path = os.path.join(indir, pat % (m + 1))
            with gzip.open(path, 'wt') as f:
                txt = ''.join('%s\n%s\n+\n%s\n' % pair[m] for pair in part)
                f.write(txt if cfg.get('final_newline', True) else txt[:-1])
            files.append(path)
    # the order in which the files are named on the command line (or in a file list) is drawn
    keys = cfg.get('file_order') or []
    files = [f for _, _, f in sorted((keys[i % len(keys)] if keys else 0, i, f) for i, f in enumerate(files))]
    if cfg.get('file_list'):
        lst = os.path.join(indir, 'files.txt')
        with open(lst, 'w') as f:
            f.write('\n'.join(files) + '\n')
        files = [lst]
    outroot = os.path.join(d, 'cli_%s' % ('rej' if with_rejects else 'norej')) + ('/' if cfg.get('o_slash') else '')
    cmd = [sys.executable, os.path.join(os.path.dirname(md.__file__), 'demux.py')] + files + [
        '--y', '-use', cfg['strategy'], '-o', outroot, '-barcodeDir', ds.barcode_dir(scratch_dir()), '-hd', str(cfg['hd'])]
    if not with_rejects:
        cmd.append('--norejects')
    if cfg['per_cell']:
        cmd += ['--scsepf', '-fh', str(cfg['maxHandles'])]
    if cfg['maxReadPairs'] is not None:
        cmd += ['-n', str(cfg['maxReadPairs'])]
    if nm == 1:
        cmd.append('--se')
    env = dict(os.environ)
    r = subprocess.run(cmd, stdout=subprocess.PIPE, stderr=subprocess.PIPE, env=env, cwd=d)
    outdir = os.path.join(outroot, 'mylib')
    err = None
    if r.returncode != 0:
        err = ('exit%d' % r.returncode, 'demux.py', r.stderr.decode('utf8', 'replace')[-300:])
    logp = os.path.join(outdir, 'demultiplexing.log')
    return {'outdir': outdir, 'nm': nm, 'ret': None, 'err': err, 'log': open(logp).read() if os.path.exists(logp) else ''}


def run_loader(case, lib, d, with_rejects):
    if case['cfg'].get('via_cli'):
        return run_cli(case, lib, d, with_rejects)
    from singlecellmultiomics.fastqProcessing.fastqHandle import FastqHandle
    cfg = case['cfg']
    loader, strategies, bp, ip, _ = ds.get_loader(scratch_dir(), cfg['hd'])
    s = strategies[cfg['strategy']]
    nm = 1 if (cfg['single_end_input'] or len(lib[0]) == 1) else 2
    files = []
    for m in range(nm):
        path = os.path.join(d, 'in_R%d.fastq%s' % (m + 1, '.gz' if cfg['gz'] else ''))
        op = gzip.open if cfg['gz'] else open
        with op(path, 'wt') as f:
            txt = ''.join('%s\n%s\n+\n%s\n' % pair[m] for pair in lib)
            f.write(txt if cfg.get('final_newline', True) else txt[:-1])      # some writers leave the last line unterminated
        files.append(path)
    outdir = os.path.join(d, 'out_%s' % ('rej' if with_rejects else 'norej'))
    os.makedirs(outdir)
    if cfg.get('rerun'):
        # the same library was demultiplexed into this directory before: the second run replaces the first
        first = dict(case, cfg=dict(cfg, rerun=False))
        os.makedirs(d + '_first', exist_ok=True)
        prev = run_loader(first, lib, d + '_first', with_rejects)
        shutil.rmtree(outdir)
        shutil.move(prev['outdir'], outdir)
        shutil.rmtree(d + '_first', ignore_errors=True)
    pre = outdir + cfg.get('sep', '/')        # the command line builds '<out>/<library>/demultiplexed' with an f-string: '//' and '/./' occur
    target = FastqHandle(pre + 'demultiplexed', pairedEnd=(nm == 2), single_cell=cfg['per_cell'], maxHandles=cfg['maxHandles'])
    if cfg['per_cell']:
        target.handles.pruneEvery = cfg['pruneEvery']
    rej = FastqHandle(pre + 'rejects', pairedEnd=(nm == 2)) if with_rejects else None
    logp = os.path.join(outdir, 'demultiplexing.log')
    err = None
    ret = None
    with open(logp, 'w') as log:
        with contextlib.redirect_stdout(io.StringIO()), contextlib.redirect_stderr(io.StringIO()):
            try:
                # the log handle is an optional argument of the API
                ret = loader.demultiplex(files, maxReadPairs=cfg['maxReadPairs'], strategies=[s], library=cfg['lib'],
                                         targetFile=target, rejectHandle=rej, **({} if cfg.get('no_log') else {'log_handle': log}))
            except Exception as e:
                import traceback
                tb = [x for x in traceback.extract_tb(e.__traceback__) if 'singlecellmultiomics' in x.filename]
                err = (type(e).__name__, tb[-1].name if tb else '?', repr(e)[:200])
            finally:
                try:
                    target.close()
                    if rej is not None:
                        rej.close()
                except Exception as e:
                    err = err or ('close:' + type(e).__name__, '?', repr(e))
    return {'outdir': outdir, 'nm': nm, 'ret': ret, 'err': err, 'log': open(logp).read()}


def collect(outdir, nm, per_cell):
    """{'demux': [records per mate], 'rejects': [...]} parsed from all output files"""
    res = {}
    if not os.path.isdir(outdir):
        return {'demux': [[] for _ in range(nm)], 'rejects': [[] for _ in range(nm)], 'demux_files': [[], []]}
    if per_cell:
        demux = [[], []]
        for fn in sorted(os.listdir(outdir)):
            if fn.startswith('demultiplexed.') and fn.endswith('.fastq.gz'):
                m = 0 if '.R1.' in fn else 1
                demux[m].append((fn, ds.read_fastq(os.path.join(outdir, fn))))
        res['demux_files'] = demux
        res['demux'] = [[r for fn, recs in demux[m] for r in recs] for m in range(nm)]
    else:
        res['demux'] = [ds.read_fastq(os.path.join(outdir, 'demultiplexedR%d.fastq.gz' % (m + 1))) for m in range(nm)]
    res['rejects'] = [ds.read_fastq(os.path.join(outdir, 'rejectsR%d.fastq.gz' % (m + 1))) for m in range(nm)]
    return res


def eval_case(case):
    out = Outcome()
    cfg = case['cfg']
    name = cfg['strategy']
    lib = build_library(case)
    if lib is None:
        return out.label('skipped')
    d = os.path.join(scratch_dir(), 'c01_%d' % os.getpid())
    shutil.rmtree(d, ignore_errors=True)
    os.makedirs(d)
    try:
        n = len(lib)
        consumed = n if cfg['maxReadPairs'] is None else min(n, cfg['maxReadPairs'])
        run = run_loader(case, lib, d, True)
        mode = '%s%s%s' % ('cli:' if cfg.get('via_cli') else '', 'single-end' if run['nm'] == 1 else 'paired', ':per-cell' if cfg['per_cell'] else '')
        if run['err']:
            out.bad('%s:loader-exception:%s:%s' % (mode, run['err'][0], run['err'][1]), '%s: %s' % (name, run['err'][2]))
            return out
        files = collect(run['outdir'], run['nm'], cfg['per_cell'])
        nm = run['nm']
        # ---- malformed output?
        for kind in ('demux', 'rejects'):
            for m in range(nm):
                for r in files[kind][m]:
                    if r[0] == 'MALFORMED' or not r[0].startswith('@') or len(r[1]) != len(r[3]) or r[2][:1] != '+':
                        out.bad('%s:malformed-%s-record' % (mode, kind), '%s: record %r' % (name, tuple(x[:80] for x in r)))
                        break
        if out.violations:
            return out
        dem = [[serial_of_record(r) for r in files['demux'][m]] for m in range(nm)]
        rej = [[serial_of_record(r) for r in files['rejects'][m]] for m in range(nm)]
        # ---- mates synchronised
        for kind, ser in (('demux', dem), ('rejects', rej)):
            if nm == 2 and ser[0] != ser[1]:
                if len(ser[0]) != len(ser[1]):
                    out.bad('%s:%s-mate-files-differ-in-length' % (mode, kind), '%s: R1 %d records, R2 %d records' % (name, len(ser[0]), len(ser[1])))
                else:
                    out.bad('%s:%s-mates-not-on-the-same-index' % (mode, kind), '%s: %r vs %r' % (name, ser[0][:10], ser[1][:10]))
        if cfg['per_cell']:
            for m in range(nm):
                for fn, recs in files['demux_files'][m]:
                    ss = [serial_of_record(r) for r in recs]
                    if ss != sorted(ss):
                        out.bad('%s:input-order-not-preserved' % mode, '%s file %s: %r' % (name, fn, ss[:12]))
        else:
            for kind, ser in (('demux', dem), ('rejects', rej)):
                if ser[0] != sorted(x for x in ser[0] if x is not None) and None not in ser[0]:
                    out.bad('%s:input-order-not-preserved' % mode, '%s %s: %r' % (name, kind, ser[0][:12]))
        # ---- partition
        want = list(range(1, consumed + 1))
        got = collections.Counter(dem[0]) + collections.Counter(rej[0])
        lost = [s for s in want if got[s] == 0]
        twice = [s for s in want if got[s] > 1]
        beyond = [s for s in got if s is None or s > consumed]
        cls_of = {p['serial']: (p['cls'], p['header']) for p in case['pairs']}
        if lost:
            cl = cls_of[lost[0]]
            why = 'quality>=52' if any(ord(c) - 33 >= 52 for h, sq, q in lib[lost[0] - 1] for c in q) else cl[0]
            out.bad('%s:pair-written-nowhere' % mode, '%s: %d of %d consumed pairs in neither output (first: serial %d class %s header %s, %s); counters %r' % (
                name, len(lost), consumed, lost[0], cl[0], cl[1], why, run['ret']))
        if twice:
            out.bad('%s:pair-written-twice' % mode, '%s: serials %r' % (name, twice[:5]))
        if beyond:
            out.bad('%s:pair-beyond-the-cut-off-or-unidentifiable' % mode, '%s: %r (consumed %d)' % (name, beyond[:5], consumed))
        # ---- rejects keep reason, bases and qualities
        for m in range(nm):
            for r in files['rejects'][m]:
                s_ = serial_of_record(r)
                if s_ is None or s_ > n:
                    continue
                h, sq, q = lib[s_ - 1][m]
                if r[1] != sq or r[3] != q:
                    out.bad('%s:reject-bases-or-qualities-changed' % mode, '%s serial %d mate %d' % (name, s_, m + 1))
                    break
                if 'RR:' not in r[0]:
                    out.bad('%s:reject-without-reason' % mode, '%s header %r' % (name, r[0][:100]))
                    break
        # ---- counters
        if run['ret'] is not None:
            processed, yields = run['ret']
            if processed != consumed:
                out.bad('%s:processedReadPairs-wrong' % mode, '%s: returned %r, consumed %d' % (name, processed, consumed))
            ny = yields.get(name, 0)
            if ny != len(dem[0]):
                out.bad('%s:strategyYields-differs-from-written-records' % mode, '%s: counter %d, %d records in the demultiplexed output' % (name, ny, len(dem[0])))
        if run['ret'] is None and cfg.get('via_cli'):
            done = [ln for ln in run['log'].split('\n') if ln.startswith('done, processed:')]
            if not done or done[-1].split('\t')[1].split()[0] != str(consumed):
                out.bad('%s:log-processed-count' % mode, run['log'][-300:])
        if run['ret'] is not None and not cfg.get('no_log'):
            if 'processed %d read pairs' % consumed not in run['log']:
                out.bad('%s:log-processed-count' % mode, run['log'][:200])
            if ny and '%s\t%d' % (name, ny) not in run['log']:
                out.bad('%s:log-yield-count' % mode, run['log'][:200])
        # ---- without a rejects handle: same demultiplexed output
        if not cfg['rejects'] and not out.violations:
            run2 = run_loader(case, lib, d, False)
            if run2['err']:
                out.bad('%s:loader-exception-without-rejects-handle:%s' % (mode, run2['err'][0]), run2['err'][2])
            else:
                f2 = collect(run2['outdir'], run2['nm'], cfg['per_cell'])
                if f2['demux'] != files['demux']:
                    out.bad('%s:demultiplexed-output-depends-on-rejects-handle' % mode, '%s' % name)
        high_q = any(ord(c) - 33 >= 52 for pair in lib[:consumed] for h, sq, q in pair for c in q)
        out.nontrivial = (len(dem[0]) > 0 and len(rej[0]) > 0) or high_q or (cfg['maxReadPairs'] is not None and cfg['maxReadPairs'] < n)
        out.label('mode=%s' % mode, 'strategy=%s' % name)
    finally:
        shutil.rmtree(d, ignore_errors=True)
    seen = {}
    for sg, msg in out.violations:
        seen.setdefault(sg, msg)
    out.violations = list(seen.items())
    return out


def cli_strategy():
    def mark(c):
        c['cfg']['via_cli'] = True
        c['cfg']['lib'] = 'mylib'
        c['cfg']['gz'] = True
        return c
    return strategy().map(mark)


def parts(tier):
    t = tier == 'thorough'
    return [Part('libraries', eval_case, strategy=strategy, examples=40000 if t else 1100),
            Part('cli', eval_case, strategy=cli_strategy, examples=1600 if t else 64)]
