"""C06 - molecule assignment equals the ground-truth duplicate structure."""
import os
import shutil
import collections
import itertools
import pysam
from hypothesis import strategies as st
from ..core import Part, Outcome, scratch_dir
from ..common import libsim, tagrun
from ..common.bamsim import write_bam

ID = 'C06'
LEVEL = 'exploration'
NONTRIVIAL_FLOOR = 0.3
RULE = ('Hypothesis-generated libraries with known truth from the simulator (1..8 cells, sites on both strands packed so '
        'that several molecules share a site, UMIs at Hamming distance 1 and 2 and with N, 1..5 PCR copies with '
        'varying R2 ends and soft clips). Part iterator: MoleculeIterator over the BAM with hamming 0/1/2, radius 0 or >0 '
        '(scCHIC), max-fragments cap; the partition is checked for soundness (shared cell/strand/contig, sites connected '
        'within the radius, UMIs connected within the distance) and, for hamming 0 and radius 0, for equality with the '
        'truth classes; a quarter of the cases run the same reads through the plain Fragment/Molecule classes (soundness: one cell, one contig, one strand, UMIs linked; every fragment once). Part tagger: the same libraries through the command line; per molecule (mi tag) exactly one '
        'fragment without duplicate bit, RC a permutation of 0..n-1, af=n, TF=n+overflow; histories: re-tagging the '
        'tagged BAM and tagging an input that already carries random duplicate bits and RC tags give the same flags and '
        'tags. Non-trivial: >=1 molecule with >=2 fragments and >=2 molecules sharing a site but differing in UMI, cell or '
        'strand.')
ASSUMPTIONS = ['for hamming > 0 only soundness is asserted (the statement does not fix which admissible grouping is chosen)',
               'pysam/htslib trusted; input coordinate sorted; fragments far shorter than the default cache radius']

UMIS = ['ACG', 'ACT', 'AGT', 'TTT', 'TTA', 'GAC', 'ANG', 'CCC']


def hd(a, b):
    return sum(x != y and x != 'N' and y != 'N' for x, y in zip(a, b))


def strategy(kind):
    @st.composite
    def case(draw):
        sites = draw(st.lists(st.one_of(st.integers(100, 3000), st.integers(100, 60000)), min_size=1, max_size=5, unique=True))
        spec = draw(libsim.spec_strategy(max_contigs=2, max_mols=16, extras=draw(st.booleans()), contig_classes=('small',),
                                         naming=('tagged', 'encoded'), max_cells=8, umis=UMIS, positions=sites))
        spec['contigs'] = [[c[0], 70000] for c in spec['contigs']]
        # pack near-by sites (radius>0 cases): shift some molecules by a few bases
        for m in spec['mols']:
            m['site'] = min(m['site'], 69000)          # the contigs were shortened to 70 kb after the draw
            m['site'] += draw(st.sampled_from([0, 0, 0, 1, 2, 5]))
        for e in spec['extras']:
            e['pos'] = min(e['pos'], 69000)
        fwd = [m for m in spec['mols'] if not m['rev']]
        if kind == 'iterator' and len(spec['contigs']) > 1 and fwd and draw(st.integers(0, 3)) == 0:
            # a read pair whose mates lie on different contigs (the mate iterator hands its mates over one at a time): its R2
            # starts exactly where the R1 of a forward molecule of the same cell and UMI starts, on the other strand
            m = fwd[draw(st.integers(0, len(fwd) - 1))]
            start = m['site'] if spec['method'] == 'nla' else m['site'] + 1
            spec['extras'].append({'kind': 'cross_contig', 'tid': 1 - m['tid'] if len(spec['contigs']) == 2 else (m['tid'] + 1) % len(spec['contigs']),
                                   'tid2': m['tid'], 'pos': start, 'rev': True, 'cell': m['cell'], 'umi': m['umi']})
        method = spec['method']
        run = {'method': method, 'hamming': draw(st.sampled_from([0, 0, 1, 2])),
               'radius': draw(st.sampled_from([0, 0, 3, 10])) if method == 'chic' else 0,
               'cap': draw(st.sampled_from([None, None, None, 1, 2, 3])),
               'eject': draw(st.sampled_from([10000, 10000, 0, 3, 10])),
               'prior_hamming': draw(st.sampled_from([None, None, 2, 1]))}
        if kind == 'iterator':
            # the same reads through the plain Fragment / Molecule classes (assignment by mapping coordinates)
            run['plain'] = draw(st.sampled_from([False, False, False, True]))
            run['peek'] = draw(st.sampled_from([None, None, None, 0, 1, 3]))
        if kind == 'tagger':
            run['history'] = draw(st.sampled_from(['fresh', 'retag', 'preset']))
            run['preset_seed'] = draw(st.integers(0, 10 ** 6))
        return {'spec': spec, 'run': run}
    return case()


def classes(method):
    from singlecellmultiomics.fragment import NlaIIIFragment, CHICFragment
    from singlecellmultiomics.molecule import NlaIIIMolecule, CHICMolecule
    return (NlaIIIMolecule, NlaIIIFragment) if method == 'nla' else (CHICMolecule, CHICFragment)


def serial_of(name, naming):
    if naming == 'encoded' and 'CX:' in name:
        return int(name.split('CX:')[1].split(';')[0])
    if name.startswith('read'):
        return int(name[4:])
    # decoded Illumina style name SIM:7:FLOWCELL:lane:1101:serial:77
    return int(name.split(':')[5])


def truth_partition(truth, method):
    groups = collections.defaultdict(list)
    for s, t in truth.items():
        if t['cls'] == 'valid':
            groups[tuple(t['key'])].append(s)
    return groups


def is_nontrivial(truth):
    groups = truth_partition(truth, None)
    multi = any(len(v) >= 2 for v in groups.values())
    by_site = collections.defaultdict(set)
    for k in groups:
        by_site[(k[1], k[3])].add(k)
    shared = any(len(v) >= 2 for v in by_site.values())
    return multi and shared


def grouping_is_unique(truth, run):
    """True when the admissible grouping is unique: within every (cell, contig, strand) the relation 'sites within the radius
    and UMIs within the distance' between truth classes is transitive. Otherwise (a UMI or a site chain a-b-c with a and c
    incompatible) which molecule the middle class joins depends on the order of equal-coordinate reads, which tagging changes."""
    h, r = run['hamming'], run['radius']
    if h == 0 and r == 0:
        return True
    by = collections.defaultdict(set)
    for t in truth.values():
        if t['cls'] == 'valid':
            k = t['key']
            by[(k[0], k[1], k[2])].add((k[3], k[4]))
    for group in by.values():
        g = sorted(group)
        link = {a: {b for b in g if abs(a[0] - b[0]) <= r and hd(a[1], b[1]) <= h} for a in g}
        for a in g:
            for b in link[a]:
                if not link[b] <= link[a] | {a}:
                    return False
    return True


def check_soundness(mols, truth, run, out, where):
    """mols: list of lists of serials (valid fragments only)"""
    h, r = run['hamming'], run['radius']
    for g in mols:
        ts = [truth[s] for s in g if truth[s]['cls'] == 'valid']
        if len(ts) < 2:
            continue
        keys = [t['key'] for t in ts]
        if len({k[0] for k in keys}) > 1:
            out.bad('%s:molecule-mixes-cells' % where, 'keys %r run %r' % (keys, run))
        if len({k[1] for k in keys}) > 1:
            out.bad('%s:molecule-mixes-contigs' % where, 'keys %r run %r' % (keys, run))
        if len({k[2] for k in keys}) > 1:
            out.bad('%s:molecule-mixes-strands' % where, 'keys %r run %r' % (keys, run))
        sites = sorted({k[3] for k in keys})
        if any(b - a > r for a, b in zip(sites, sites[1:])) and not run.get('plain'):
            out.bad('%s:molecule-mixes-sites-beyond-radius' % where, 'sites %r radius %d run %r' % (sites, r, run))
        umis = sorted({k[4] for k in keys})
        # connected under distance <= h
        comp = {umis[0]}
        grew = True
        while grew:
            grew = False
            for u in umis:
                if u not in comp and any(hd(u, v) <= h for v in comp):
                    comp.add(u)
                    grew = True
        if len(comp) != len(umis):
            out.bad('%s:molecule-mixes-umis-beyond-distance' % where, 'umis %r hamming %d run %r' % (umis, h, run))


def eval_iterator(case):
    from singlecellmultiomics.molecule import MoleculeIterator
    out = Outcome()
    spec, run = case['spec'], case['run']
    if any(m['site'] > spec['contigs'][m['tid']][1] - 200 for m in spec['mols']):
        return out.label('out of domain: molecule beyond the end of its contig')
    contigs, records, truth = libsim.realize(spec)
    d = os.path.join(scratch_dir(), 'c06i_%d' % os.getpid())
    shutil.rmtree(d, ignore_errors=True)
    os.makedirs(d)
    bam = os.path.join(d, 'in.bam')
    try:
        write_bam(bam, contigs, records)
        mc, fc = classes(run['method'])
        plain = bool(run.get('plain'))
        if plain:
            from singlecellmultiomics.molecule import Molecule
            from singlecellmultiomics.fragment import Fragment
            mc, fc = Molecule, Fragment
        fargs = {'umi_hamming_distance': run['hamming']}
        if run['method'] == 'chic' and not plain:
            fargs['assignment_radius'] = run['radius']
        margs = {'max_associated_fragments': run['cap']} if run['cap'] else {}
        mols = []
        overflow = []
        try:
            with tagrun.quiet():
                if run.get('prior_hamming') is not None:
                    with pysam.AlignmentFile(bam) as f:
                        for m in MoleculeIterator(f, molecule_class=mc, fragment_class=fc,
                                                  fragment_class_args=dict(fargs, umi_hamming_distance=run['prior_hamming'])):
                            pass
                with pysam.AlignmentFile(bam) as f:
                    kw = dict(molecule_class=mc, fragment_class=fc, fragment_class_args=fargs, molecule_class_args=margs,
                              yield_invalid=False, yield_overflow=True, check_eject_every=run.get('eject', 10000))
                    if run.get('peek') is None:
                        passes = [MoleculeIterator(f, **kw)]
                    else:
                        # one iterator object per contig, first looked at (the first `peek` molecules, then abandoned), then
                        # iterated from the start again: the second pass is what counts
                        passes = []
                        for cname, _ in contigs:
                            it = MoleculeIterator(f, contig=cname, **kw)
                            for i, m in enumerate(it):
                                if i >= run['peek']:
                                    break
                            passes.append(it)
                    for m in itertools.chain.from_iterable(passes):
                        if plain:
                            # strand of a fragment: that of its R1, or the opposite of a lone R2's
                            # (a lone R2 keeps its read2 bit although the mate iterator clears its paired bit)
                            st_ = {((not r.is_reverse) if r.is_read2 else bool(r.is_reverse)) for fr in m for r in fr if r is not None and not r.is_unmapped}
                            if len(st_) > 1:
                                out.bad('iterator:plain:molecule-mixes-strands', 'reads %r' % [(r.query_name, r.flag, r.reference_name, r.reference_start) for fr in m for r in fr if r is not None][:6])
                        g = sorted({serial_of(r.query_name, spec['naming']) for fr in m for r in fr if r is not None})
                        is_over = any(r.has_tag('RR') and r.get_tag('RR') == 'overflow' for fr in m for r in fr if r is not None)
                        (overflow if is_over else mols).append(g)
        except Exception as e:
            import traceback
            tb = [x for x in traceback.extract_tb(e.__traceback__) if 'singlecellmultiomics' in x.filename]
            return out.bad('iterator:exception:%s:%s' % (type(e).__name__, tb[-1].name if tb else '?'), repr(e))
        mols_valid = [[s for s in g if truth[s]['cls'] == 'valid'] for g in mols]
        mols_valid = [g for g in mols_valid if g]
        check_soundness(mols_valid, truth, run, out, 'iterator')
        valid_serials = {s for s, t in truth.items() if t['cls'] == 'valid'}
        seen = collections.Counter(s for g in mols + overflow for s in g)
        if plain:
            # half-mapped / orphan pairs are un-paired by the mate iterator (pysamiterators) and reach the plain classes as
            # two single-read fragments: only the simulated valid pairs are asserted to be emitted once
            seen = collections.Counter({s: v for s, v in seen.items() if s in valid_serials})
        if any(v > 1 for s, v in seen.items()):
            out.bad('iterator:fragment-in-two-molecules', '%r' % [s for s, v in seen.items() if v > 1])
        lost = valid_serials - set(seen)
        if lost:
            out.bad('iterator:valid-fragment-not-emitted', 'serials %r keys %r run %r' % (sorted(lost), [truth[s]['key'] for s in sorted(lost)], run))
        if run['cap']:
            if any(len(g) > run['cap'] for g in mols):
                out.bad('iterator:cap-exceeded', 'cap %r sizes %r' % (run['cap'], [len(g) for g in mols]))
        if run['hamming'] == 0 and not run['cap'] and (plain or run['radius'] > 0):
            # whatever else is merged, fragments with the identical (cell, contig, strand, site, UMI) belong together
            where = {}
            for gi, g in enumerate(mols):
                for s_ in g:
                    where[s_] = gi
            clip_of, idx_ = {}, 1
            for m_ in spec['mols']:
                for cp_ in m_['copies']:
                    clip_of[idx_] = cp_['clip']
                    idx_ += 1
            tp = truth_partition(truth, run['method'])
            crowd = collections.Counter((k_[0], k_[1], k_[2], k_[4]) for k_ in tp)
            unique = grouping_is_unique(truth, run)
            for k_, v in tp.items():
                if plain and (any(clip_of.get(s_, 1) for s_ in v) or crowd[(k_[0], k_[1], k_[2], k_[4])] > 1):
                    continue      # the plain classes compare aligned start OR end: a soft clip at the cut moves them, and a
                                  # second class of the same cell / strand / UMI can share an end with some copies (bridging)
                if not plain and not unique:
                    continue      # site chains: which molecule a class joins depends on arrival order
                homes = {where.get(s_) for s_ in v if s_ in where}
                if len(homes) > 1:
                    out.bad('iterator:identical-key-class-split:%s' % ('plain' if plain else 'radius'), 'class %r (serials %r) is spread over %d molecules; run %r' % (list(k_), sorted(v), len(homes), run))
                    break
        if plain:
            out.nontrivial = is_nontrivial(truth)
            out.label('plain fragment classes')
            return _dedup(out) or out
        if run['hamming'] == 0 and run['radius'] == 0 and not run['cap']:
            got = sorted(tuple(g) for g in mols_valid)
            exp = sorted(tuple(sorted(v)) for v in truth_partition(truth, run['method']).values())
            if got != exp:
                split = [g for g in exp if g not in got]
                merged = [g for g in got if g not in exp]
                kind = 'truth-class-split' if split and all(any(set(x) < set(s) for x in got) for s in split) else 'truth-classes-merged-or-mixed'
                out.bad('iterator:exact:%s:%s' % (kind, run['method']), 'split %r merged %r; keys %r' % (
                    split[:3], merged[:3], [[truth[s]['key'] for s in g] for g in (split + merged)[:3]]))
        if run['hamming'] == 0 and run['radius'] == 0 and run['cap']:
            # a cap only limits molecules that reach it: truth classes below the cap are untouched, and a capped
            # molecule plus its overflow fragments are exactly one truth class
            got = {tuple(g) for g in mols_valid}
            over = [s for g in overflow for s in g]
            for k, v in truth_partition(truth, run['method']).items():
                v = tuple(sorted(v))
                if len(v) < run['cap'] and v not in got:
                    out.bad('iterator:cap:class-below-the-cap-not-one-molecule:%s' % run['method'],
                            'cap %d, truth class %r (key %r) is not a molecule; molecules %r overflow %r' % (run['cap'], v, list(k), sorted(got)[:6], over[:6]))
                    break
            for g in overflow:
                for s in g:
                    cls = [v for v in truth_partition(truth, run['method']).values() if s in v]
                    if cls and len(cls[0]) <= run['cap']:
                        out.bad('iterator:cap:overflow-from-a-class-that-fits', 'serial %d of a class of %d fragments reported as overflow at cap %d' % (s, len(cls[0]), run['cap']))
                        break
        out.nontrivial = is_nontrivial(truth)
        out.label('hamming=%d' % run['hamming'], 'radius=%d' % run['radius'], 'cap=%r' % run['cap'])
    finally:
        shutil.rmtree(d, ignore_errors=True)
    _dedup(out)
    return out


def _dedup(out):
    seen = {}
    for s, m in out.violations:
        seen.setdefault(s, m)
    out.violations = list(seen.items())


MOL_TAGS = ['DS', 'RS', 'RZ', 'RC', 'af', 'TF', 'RR', 'SM', 'RX']


def observe(bam):
    """{(name, mate): dict(flag bits, tags)} and molecule grouping by mi."""
    recs = {}
    with pysam.AlignmentFile(bam) as f:
        for r in f.fetch(until_eof=True):
            tags = {t: r.get_tag(t) for t in MOL_TAGS if r.has_tag(t)}
            # the contig is part of the key: the mates of an un-paired cross-contig pair may share name, mate label and position
            recs[(r.query_name, tagrun.mate_of(r), '%s:%d' % (r.reference_name, r.reference_start))] = {
                'dup': bool(r.is_duplicate), 'qcfail': bool(r.is_qcfail), 'tags': tags,
                'mi': r.get_tag('mi') if r.has_tag('mi') else None}
    return recs


def eval_tagger(case):
    out = Outcome()
    spec, run = case['spec'], case['run']
    if any(m['site'] > spec['contigs'][m['tid']][1] - 200 for m in spec['mols']):
        return out.label('out of domain: molecule beyond the end of its contig')
    contigs, records, truth = libsim.realize(spec)
    if run['history'] == 'preset':
        import random
        rng = random.Random(run['preset_seed'])
        for r in records:
            if rng.random() < 0.5:
                r['flag'] |= 1024
            if rng.random() < 0.5:
                r.setdefault('tags', {})['RC'] = rng.randint(0, 5)
    d = os.path.join(scratch_dir(), 'c06t_%d' % os.getpid())
    shutil.rmtree(d, ignore_errors=True)
    os.makedirs(d)
    try:
        bam_in = os.path.join(d, 'in.bam')
        write_bam(bam_in, contigs, records)
        extra = ['-umi_hamming_distance', str(run['hamming'])]
        if run['method'] == 'chic' and run['radius']:
            extra += ['-assignment_radius', str(run['radius'])]
        if run['cap']:
            extra += ['-max_associated_fragments', str(run['cap'])]
        outs = []
        try:
            o1 = os.path.join(d, 'o1.bam')
            tagrun.run_tagger(bam_in, o1, run['method'], extra=extra)
            outs.append(observe(o1))
            if run['history'] == 'retag':
                o2 = os.path.join(d, 'o2.bam')
                tagrun.run_tagger(o1, o2, run['method'], extra=extra)
                outs.append(observe(o2))
            elif run['history'] == 'preset':
                # the same library without the preset bits
                contigs2, records2, _ = libsim.realize(spec)
                b2 = os.path.join(d, 'clean.bam')
                write_bam(b2, contigs2, records2)
                o2 = os.path.join(d, 'o2.bam')
                tagrun.run_tagger(b2, o2, run['method'], extra=extra)
                outs.append(observe(o2))
        except BaseException as e:
            import traceback
            tb = [x for x in traceback.extract_tb(e.__traceback__) if 'singlecellmultiomics' in x.filename]
            return out.bad('tagger:exception:%s:%s' % (type(e).__name__, tb[-1].name if tb else '?'), repr(e)[:300])
        first = outs[0]
        # ---- per molecule flags / tags
        by_mi = collections.defaultdict(lambda: collections.defaultdict(list))
        for (name, mate, pos), o in first.items():
            if o['mi'] is None:
                out.bad('tagger:record-without-mi', '%r' % ((name, mate),))
                continue
            by_mi[o['mi']][name].append(o)
        mol_serials = []
        for mi, frags in by_mi.items():
            serials = [serial_of(n, spec['naming']) for n in frags]
            valid = all(truth[s]['cls'] == 'valid' for s in serials) and not any(o['qcfail'] for os_ in frags.values() for o in os_)
            overflow = any(o['tags'].get('RR') == 'overflow' for os_ in frags.values() for o in os_)
            if not valid or overflow:
                continue
            mol_serials.append(sorted(serials))
            n = len(frags)
            # the site and strand tags of a valid fragment are those of the simulated cut (ties C06 to C09 through the tagger)
            for name, os_ in (frags.items() if run['radius'] == 0 else []):   # with a radius the molecule carries one common site
                key = truth[serial_of(name, spec['naming'])]['key']
                for o in os_:
                    if o['tags'].get('DS') != key[3] or ('RS' in o['tags'] and bool(o['tags']['RS']) != bool(key[2])):
                        out.bad('tagger:site-or-strand-tag-differs-from-the-simulated-cut:%s' % run['method'],
                                '%s: DS %r RS %r, simulated site %r strand %r' % (name, o['tags'].get('DS'), o['tags'].get('RS'), key[3], key[2]))
                        break
            for name, os_ in frags.items():
                if len({o['dup'] for o in os_}) > 1:
                    out.bad('tagger:mates-disagree-on-duplicate-bit', '%s %r' % (name, os_))
            primaries = [name for name, os_ in frags.items() if not os_[0]['dup']]
            if len(primaries) != 1:
                out.bad('tagger:%s-non-duplicate-fragments:%s' % ('zero' if not primaries else 'several', run['history']),
                        'molecule %s with %d fragments has %d without duplicate bit; history %s; RC %r' % (
                            mi, n, len(primaries), run['history'], sorted(o['tags'].get('RC') for os_ in frags.values() for o in os_[:1])))
            rcs = sorted(os_[0]['tags'].get('RC', -1) for os_ in frags.values())
            if rcs != list(range(n)):
                out.bad('tagger:RC-not-a-permutation', 'molecule %s: RC %r for %d fragments' % (mi, rcs, n))
            else:
                for name, os_ in frags.items():
                    if (os_[0]['tags']['RC'] == 0) != (not os_[0]['dup']):
                        out.bad('tagger:rank0-is-not-the-non-duplicate', 'molecule %s %s RC %r dup %r' % (mi, name, os_[0]['tags']['RC'], os_[0]['dup']))
            afs = {o['tags'].get('af') for os_ in frags.values() for o in os_}
            if afs != {n}:
                out.bad('tagger:af-differs-from-molecule-size', 'molecule %s: af %r size %d' % (mi, afs, n))
            tfs = {o['tags'].get('TF') for os_ in frags.values() for o in os_}
            if len(tfs) != 1 or list(tfs)[0] is None or list(tfs)[0] < n or (not run['cap'] and list(tfs)[0] != n):
                out.bad('tagger:TF-inconsistent', 'molecule %s: TF %r size %d cap %r' % (mi, tfs, n, run['cap']))
        check_soundness(mol_serials, truth, run, out, 'tagger')
        # ---- histories
        if len(outs) == 2 and not run['cap'] and not grouping_is_unique(truth, run):
            out.label('history not compared: the admissible grouping is not unique (UMI / site chain)')
        elif len(outs) == 2 and not run['cap']:   # with a cap the overflowing fragments depend on input order: not claimed
            a, b = outs
            ka = {(n if not n.startswith('Is:') else n, m, p): v for (n, m, p), v in a.items()}
            if set(ka) != set(b):
                out.bad('tagger:history:%s:records-differ' % run['history'], 'only first %r only second %r' % (
                    sorted(set(ka) - set(b))[:3], sorted(set(b) - set(ka))[:3]))
            else:
                for k in ka:
                    x, y = ka[k], b[k]
                    if x['dup'] != y['dup'] or x['qcfail'] != y['qcfail']:
                        out.bad('tagger:history:%s:flags-differ' % run['history'], '%r: %r vs %r' % (k, x, y))
                        break
                    if x['qcfail'] or x['tags'].get('RR'):
                        continue    # rejection reasons of rejected fragments accumulate; not part of the claim
                    tx = {t: x['tags'].get(t) for t in ('DS', 'RS', 'RC', 'af', 'TF')}
                    ty = {t: y['tags'].get(t) for t in ('DS', 'RS', 'RC', 'af', 'TF')}
                    if tx != ty:
                        out.bad('tagger:history:%s:tags-differ' % run['history'], '%r: %r vs %r' % (k, tx, ty))
                        break
        out.nontrivial = is_nontrivial(truth)
        out.label('history=%s' % run['history'])
    finally:
        shutil.rmtree(d, ignore_errors=True)
    _dedup(out)
    return out


def parts(tier):
    t = tier == 'thorough'
    return [
        Part('iterator', eval_iterator, strategy=lambda: strategy('iterator'), examples=80000 if t else 4000),
        Part('tagger', eval_tagger, strategy=lambda: strategy('tagger'), examples=24000 if t else 1200),
    ]
