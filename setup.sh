#!/bin/bash
# Offline environment check. hypothesis is already in /venv on this image; install from the wheelhouse otherwise.
cd "$(dirname "$0")" || exit 1
if ! /venv/bin/python -c "import hypothesis" 2>/dev/null; then
  /venv/bin/pip install --no-index --find-links /opt/veriftools/wheels hypothesis || exit 1
fi
mkdir -p evidence
/venv/bin/python -c "import hypothesis, pysam, numpy, pandas; print('ok', hypothesis.__version__)"
